//! C07 world: bound propagation is an iterative work-list with a step budget. The harness
//! owns that budget (hook `rooc::verif_hooks`, feature `rooc_verif`): interrupting the
//! work-list after exactly k steps is an integer, every k is enumerated per model, and the
//! ranges that are published at that instant are judged against an exact reference.

use crate::case::Violation;
use crate::model::{Cmp, Dom, Var};
use crate::oracle::{self, ConQ, Verdict};
use crate::q::Q;
use crate::rng::{fnv, Rng};
use crate::solvers::{panic_message, var_type};
use indexmap::IndexMap;
use rooc::model_transformer::{Constraint, DomainVariable, Exp, Model, Objective};
use rooc::verif_hooks::{self, BoundsProbe};
use rooc::{BinOp, Comparison, InputSpan, Linearizer, OptimizationType, UnOp, VariableType};
use serde::{Deserialize, Serialize};
use std::cell::RefCell;
use std::collections::HashMap;
use std::panic::{catch_unwind, AssertUnwindSafe};

/// A constant written as a small fraction (decimal or dyadic); the f64 the compiler sees is
/// `n as f64 / d as f64`, the exact reference uses n/d.
#[derive(Clone, Copy, Debug, PartialEq, Serialize, Deserialize)]
pub struct Dec {
    pub n: i64,
    pub d: i64,
}

impl Dec {
    pub fn int(n: i64) -> Dec {
        Dec { n, d: 1 }
    }
    pub fn f(&self) -> f64 {
        self.n as f64 / self.d as f64
    }
    pub fn q(&self) -> Q {
        Q::new(self.n as i128, self.d as i128)
    }
}

#[derive(Clone, Debug, PartialEq, Serialize, Deserialize)]
pub enum SExp {
    Num(Dec),
    Var(usize),
    Add(Box<SExp>, Box<SExp>),
    Sub(Box<SExp>, Box<SExp>),
    /// constant * expression
    MulL(Dec, Box<SExp>),
    /// expression * constant
    MulR(Box<SExp>, Dec),
    Div(Box<SExp>, Dec),
    Neg(Box<SExp>),
    Abs(Box<SExp>),
    Min(Vec<SExp>),
    Max(Vec<SExp>),
    /// logic over Boolean variables, used as a 0/1 value
    And(Vec<SExp>),
    Or(Vec<SExp>),
    Not(Box<SExp>),
    /// binary connectives over Boolean operands, used as a 0/1 value
    Logic2(LOp, Box<SExp>, Box<SExp>),
}

#[derive(Clone, Copy, Debug, PartialEq, Eq, Serialize, Deserialize)]
pub enum LOp {
    Implies,
    Iff,
    Xor,
}

impl LOp {
    pub fn apply(&self, a: bool, b: bool) -> bool {
        match self {
            LOp::Implies => !a || b,
            LOp::Iff => a == b,
            LOp::Xor => a != b,
        }
    }
}

#[derive(Clone, Debug, PartialEq, Serialize, Deserialize)]
pub struct SCon {
    pub name: String,
    pub lhs: SExp,
    pub cmp: Cmp,
    pub rhs: SExp,
}

#[derive(Clone, Debug, PartialEq, Serialize, Deserialize)]
pub struct SrcModel {
    pub vars: Vec<Var>,
    pub cons: Vec<SCon>,
    /// A point the generator planted (checked exactly before use); lets the run ask whether
    /// the compiled model still admits a known source-feasible assignment.
    #[serde(default)]
    pub witness: Option<Vec<Dec>>,
}

#[derive(Clone, Debug, PartialEq, Serialize, Deserialize)]
pub struct BoundsCase {
    pub model: SrcModel,
    /// Step budget; `None` = the shipped default.
    pub k: Option<usize>,
}

impl SExp {
    pub fn to_exp(&self, vars: &[Var]) -> Exp {
        let b = |e: &SExp| Box::new(e.to_exp(vars));
        match self {
            SExp::Num(d) => Exp::Number(d.f()),
            SExp::Var(i) => Exp::Variable(vars[*i].name.clone()),
            SExp::Add(l, r) => Exp::BinOp(BinOp::Add, b(l), b(r)),
            SExp::Sub(l, r) => Exp::BinOp(BinOp::Sub, b(l), b(r)),
            SExp::MulL(c, e) => Exp::BinOp(BinOp::Mul, Box::new(Exp::Number(c.f())), b(e)),
            SExp::MulR(e, c) => Exp::BinOp(BinOp::Mul, b(e), Box::new(Exp::Number(c.f()))),
            SExp::Div(e, c) => Exp::BinOp(BinOp::Div, b(e), Box::new(Exp::Number(c.f()))),
            SExp::Neg(e) => Exp::UnOp(UnOp::Neg, b(e)),
            SExp::Abs(e) => Exp::Abs(b(e)),
            SExp::Min(es) => Exp::Min(es.iter().map(|e| e.to_exp(vars)).collect()),
            SExp::Max(es) => Exp::Max(es.iter().map(|e| e.to_exp(vars)).collect()),
            SExp::And(es) => Exp::And(es.iter().map(|e| e.to_exp(vars)).collect()),
            SExp::Or(es) => Exp::Or(es.iter().map(|e| e.to_exp(vars)).collect()),
            SExp::Not(e) => Exp::Not(b(e)),
            SExp::Logic2(LOp::Implies, l, r) => Exp::Implies(b(l), b(r)),
            SExp::Logic2(LOp::Iff, l, r) => Exp::Iff(b(l), b(r)),
            SExp::Logic2(LOp::Xor, l, r) => Exp::Xor(b(l), b(r)),
        }
    }

    /// Largest magnitude among the values of all sub-expressions at a point: the scale
    /// against which the rounding error of one f64 evaluation (the harness's and the
    /// analyzer's alike) has to be measured when terms cancel.
    pub fn magnitude(&self, x: &[f64]) -> f64 {
        let own = self.eval(x).abs();
        let own = if own.is_finite() { own } else { 0.0 };
        let kids: f64 = match self {
            SExp::Num(_) | SExp::Var(_) => 0.0,
            SExp::Add(l, r) | SExp::Sub(l, r) | SExp::Logic2(_, l, r) => l.magnitude(x).max(r.magnitude(x)),
            SExp::MulL(_, e) | SExp::MulR(e, _) | SExp::Div(e, _) | SExp::Neg(e) | SExp::Abs(e) | SExp::Not(e) => {
                e.magnitude(x)
            }
            SExp::Min(es) | SExp::Max(es) | SExp::And(es) | SExp::Or(es) => {
                es.iter().map(|e| e.magnitude(x)).fold(0.0, f64::max)
            }
        };
        own.max(kids)
    }

    /// Float value at a point (the harness's own interpreter).
    pub fn eval(&self, x: &[f64]) -> f64 {
        match self {
            SExp::Num(d) => d.f(),
            SExp::Var(i) => x[*i],
            SExp::Add(l, r) => l.eval(x) + r.eval(x),
            SExp::Sub(l, r) => l.eval(x) - r.eval(x),
            SExp::MulL(c, e) => c.f() * e.eval(x),
            SExp::MulR(e, c) => e.eval(x) * c.f(),
            SExp::Div(e, c) => e.eval(x) / c.f(),
            SExp::Neg(e) => -e.eval(x),
            SExp::Abs(e) => e.eval(x).abs(),
            SExp::Min(es) => es.iter().map(|e| e.eval(x)).fold(f64::INFINITY, f64::min),
            SExp::Max(es) => es.iter().map(|e| e.eval(x)).fold(f64::NEG_INFINITY, f64::max),
            SExp::And(es) => {
                if es.iter().all(|e| e.eval(x) != 0.0) {
                    1.0
                } else {
                    0.0
                }
            }
            SExp::Or(es) => {
                if es.iter().any(|e| e.eval(x) != 0.0) {
                    1.0
                } else {
                    0.0
                }
            }
            SExp::Not(e) => {
                if e.eval(x) != 0.0 {
                    0.0
                } else {
                    1.0
                }
            }
            SExp::Logic2(op, l, r) => {
                if op.apply(l.eval(x) != 0.0, r.eval(x) != 0.0) {
                    1.0
                } else {
                    0.0
                }
            }
        }
    }

    /// Exact value at a rational point.
    pub fn eval_q(&self, x: &[Q]) -> Q {
        let truthy = |q: Q| !q.is_zero();
        match self {
            SExp::Num(d) => d.q(),
            SExp::Var(i) => x[*i],
            SExp::Add(l, r) => l.eval_q(x).add(r.eval_q(x)),
            SExp::Sub(l, r) => l.eval_q(x).sub(r.eval_q(x)),
            SExp::MulL(c, e) | SExp::MulR(e, c) => c.q().mul(e.eval_q(x)),
            SExp::Div(e, c) => e.eval_q(x).div(c.q()),
            SExp::Neg(e) => e.eval_q(x).neg(),
            SExp::Abs(e) => e.eval_q(x).abs(),
            SExp::Min(es) => es.iter().map(|e| e.eval_q(x)).min().unwrap(),
            SExp::Max(es) => es.iter().map(|e| e.eval_q(x)).max().unwrap(),
            SExp::And(es) => {
                if es.iter().all(|e| truthy(e.eval_q(x))) {
                    Q::ONE
                } else {
                    Q::ZERO
                }
            }
            SExp::Or(es) => {
                if es.iter().any(|e| truthy(e.eval_q(x))) {
                    Q::ONE
                } else {
                    Q::ZERO
                }
            }
            SExp::Not(e) => {
                if truthy(e.eval_q(x)) {
                    Q::ZERO
                } else {
                    Q::ONE
                }
            }
            SExp::Logic2(op, l, r) => {
                if op.apply(truthy(l.eval_q(x)), truthy(r.eval_q(x))) {
                    Q::ONE
                } else {
                    Q::ZERO
                }
            }
        }
    }

    pub fn subexpressions<'a>(&'a self, out: &mut Vec<&'a SExp>) {
        out.push(self);
        match self {
            SExp::Num(_) | SExp::Var(_) => {}
            SExp::Add(l, r) | SExp::Sub(l, r) | SExp::Logic2(_, l, r) => {
                l.subexpressions(out);
                r.subexpressions(out);
            }
            SExp::MulL(_, e)
            | SExp::MulR(e, _)
            | SExp::Div(e, _)
            | SExp::Neg(e)
            | SExp::Abs(e)
            | SExp::Not(e) => e.subexpressions(out),
            SExp::Min(es) | SExp::Max(es) | SExp::And(es) | SExp::Or(es) => {
                es.iter().for_each(|e| e.subexpressions(out))
            }
        }
    }

    /// Number of disjunctive branches the exact expansion of this expression needs.
    pub fn branch_count(&self) -> u64 {
        match self {
            SExp::Num(_) | SExp::Var(_) => 1,
            SExp::Add(l, r) | SExp::Sub(l, r) => l.branch_count().saturating_mul(r.branch_count()),
            SExp::MulL(_, e) | SExp::MulR(e, _) | SExp::Div(e, _) | SExp::Neg(e) => e.branch_count(),
            SExp::Abs(e) => e.branch_count().saturating_mul(2),
            SExp::Min(es) | SExp::Max(es) => es
                .iter()
                .map(|e| e.branch_count())
                .fold(1u64, |a, b| a.saturating_mul(b))
                .saturating_mul(es.len() as u64),
            SExp::And(_) | SExp::Or(_) | SExp::Not(_) | SExp::Logic2(..) => 1,
        }
    }
}

impl std::fmt::Display for SExp {
    fn fmt(&self, f: &mut std::fmt::Formatter<'_>) -> std::fmt::Result {
        let d = |c: &Dec| {
            if c.d == 1 {
                format!("{}", c.n)
            } else {
                format!("{}", c.f())
            }
        };
        let list = |es: &Vec<SExp>| es.iter().map(|e| e.to_string()).collect::<Vec<_>>().join(", ");
        match self {
            SExp::Num(c) => write!(f, "{}", d(c)),
            SExp::Var(i) => write!(f, "v{i}"),
            SExp::Add(l, r) => write!(f, "({l} + {r})"),
            SExp::Sub(l, r) => write!(f, "({l} - {r})"),
            SExp::MulL(c, e) => write!(f, "{}*{e}", d(c)),
            SExp::MulR(e, c) => write!(f, "{e}*{}", d(c)),
            SExp::Div(e, c) => write!(f, "{e}/{}", d(c)),
            SExp::Neg(e) => write!(f, "-{e}"),
            SExp::Abs(e) => write!(f, "|{e}|"),
            SExp::Min(es) => write!(f, "min{{{}}}", list(es)),
            SExp::Max(es) => write!(f, "max{{{}}}", list(es)),
            SExp::And(es) => write!(f, "and{{{}}}", list(es)),
            SExp::Or(es) => write!(f, "or{{{}}}", list(es)),
            SExp::Not(e) => write!(f, "not {e}"),
            SExp::Logic2(op, l, r) => write!(f, "({l} {} {r})", match op { LOp::Implies => "implies", LOp::Iff => "iff", LOp::Xor => "xor" }),
        }
    }
}

impl std::fmt::Display for SrcModel {
    fn fmt(&self, f: &mut std::fmt::Formatter<'_>) -> std::fmt::Result {
        for (i, c) in self.cons.iter().enumerate() {
            if i > 0 {
                write!(f, "; ")?;
            }
            let op = match c.cmp {
                Cmp::Le => "<=",
                Cmp::Ge => ">=",
                Cmp::Eq => "=",
            };
            write!(f, "{} {op} {}", c.lhs, c.rhs)?;
        }
        write!(f, " | ")?;
        for (i, v) in self.vars.iter().enumerate() {
            if i > 0 {
                write!(f, ", ")?;
            }
            let (lo, hi) = v.dom.bounds_f64();
            let kind = match v.dom {
                Dom::Bool => "Bool",
                Dom::Int { .. } => "Int",
                Dom::Real { .. } => "Real",
                Dom::NonNeg { .. } => "NonNeg",
            };
            write!(f, "v{i}:{kind}[{lo},{hi}]")?;
        }
        Ok(())
    }
}

fn comparison(c: Cmp) -> Comparison {
    match c {
        Cmp::Le => Comparison::LessOrEqual,
        Cmp::Ge => Comparison::GreaterOrEqual,
        Cmp::Eq => Comparison::Equal,
    }
}

impl SrcModel {
    pub fn domain(&self) -> IndexMap<String, DomainVariable> {
        self.vars
            .iter()
            .map(|v| {
                let mut d = DomainVariable::new(var_type(&v.dom), InputSpan::default());
                d.increment_usage();
                (v.name.clone(), d)
            })
            .collect()
    }
    pub fn constraints(&self) -> Vec<Constraint> {
        self.cons
            .iter()
            .map(|c| {
                Constraint::new(
                    c.lhs.to_exp(&self.vars),
                    comparison(c.cmp),
                    c.rhs.to_exp(&self.vars),
                    c.name.clone(),
                )
            })
            .collect()
    }
    pub fn to_model(&self) -> Model {
        Model::new(
            Objective::new(OptimizationType::Satisfy, Exp::Number(0.0)),
            self.constraints(),
            self.domain(),
        )
    }
    pub fn well_formed(&self) -> bool {
        let mut names = std::collections::BTreeSet::new();
        self.vars.iter().all(|v| names.insert(v.name.clone()))
            && self.cons.iter().all(|c| {
                let mut subs = Vec::new();
                c.lhs.subexpressions(&mut subs);
                c.rhs.subexpressions(&mut subs);
                subs.iter().all(|e| match e {
                    SExp::Var(i) => *i < self.vars.len(),
                    SExp::Div(_, d) | SExp::MulL(d, _) | SExp::MulR(_, d) | SExp::Num(d) => d.d > 0 && (!matches!(e, SExp::Div(..)) || d.n != 0),
                    SExp::Min(es) | SExp::Max(es) => !es.is_empty(),
                    SExp::And(es) | SExp::Or(es) => {
                        !es.is_empty() && es.iter().all(|a| self.is_boolean_exp(a))
                    }
                    SExp::Not(a) => self.is_boolean_exp(a),
                    SExp::Logic2(_, a, b) => self.is_boolean_exp(a) && self.is_boolean_exp(b),
                    _ => true,
                })
            })
            && self.branch_product() <= MAX_BRANCHES
    }
    fn is_boolean_exp(&self, e: &SExp) -> bool {
        match e {
            SExp::Var(i) => matches!(self.vars.get(*i).map(|v| &v.dom), Some(Dom::Bool)),
            SExp::And(es) | SExp::Or(es) => es.iter().all(|a| self.is_boolean_exp(a)),
            SExp::Not(a) => self.is_boolean_exp(a),
            SExp::Logic2(_, a, b) => self.is_boolean_exp(a) && self.is_boolean_exp(b),
            _ => false,
        }
    }
    pub fn branch_product(&self) -> u64 {
        self.cons
            .iter()
            .map(|c| c.lhs.branch_count().saturating_mul(c.rhs.branch_count()))
            .fold(1u64, |a, b| a.saturating_mul(b))
    }
    pub fn int_points(&self) -> u64 {
        self.vars
            .iter()
            .filter_map(|v| v.dom.int_range())
            .map(|(lo, hi)| (hi - lo + 1).max(0) as u64)
            .fold(1u64, |a, b| a.saturating_mul(b))
    }
}

pub const MAX_BRANCHES: u64 = 48;
pub const MAX_INT_POINTS: u64 = 36;

// ---------------------------------------------------------------------------------------
// exact reference: per-variable extreme values over the source-feasible set, by enumerating
// integer points and expanding abs/min/max into their affine branches

#[derive(Clone, Debug)]
struct Aff {
    /// coefficients over the continuous variables, then the constant
    a: Vec<Q>,
    k: Q,
}

impl Aff {
    fn constant(nc: usize, k: Q) -> Aff {
        Aff {
            a: vec![Q::ZERO; nc],
            k,
        }
    }
    fn add(&self, o: &Aff) -> Aff {
        Aff {
            a: self.a.iter().zip(&o.a).map(|(x, y)| x.add(*y)).collect(),
            k: self.k.add(o.k),
        }
    }
    fn scale(&self, c: Q) -> Aff {
        Aff {
            a: self.a.iter().map(|x| x.mul(c)).collect(),
            k: self.k.mul(c),
        }
    }
    fn sub(&self, o: &Aff) -> Aff {
        self.add(&o.scale(Q::ONE.neg()))
    }
    fn is_const(&self) -> bool {
        self.a.iter().all(|x| x.is_zero())
    }
    /// `self cmp 0` as a constraint over the continuous variables; `None` = trivially true,
    /// `Some(Err(()))` = trivially false.
    fn con(&self, cmp: Cmp) -> Option<Result<ConQ, ()>> {
        if self.is_const() {
            let ok = match cmp {
                Cmp::Le => !self.k.is_pos(),
                Cmp::Ge => !self.k.is_neg(),
                Cmp::Eq => self.k.is_zero(),
            };
            return if ok { None } else { Some(Err(())) };
        }
        Some(Ok(ConQ {
            a: self.a.clone(),
            cmp,
            b: self.k.neg(),
        }))
    }
}

type Branch = (Aff, Vec<ConQ>);

struct Expander<'a> {
    vars: &'a [Var],
    cont_pos: Vec<Option<usize>>,
    nc: usize,
    int_vals: Vec<Q>,
}

impl Expander<'_> {
    fn push_cond(conds: &mut Vec<ConQ>, c: Option<Result<ConQ, ()>>) -> bool {
        match c {
            None => true,
            Some(Ok(c)) => {
                conds.push(c);
                true
            }
            Some(Err(())) => false,
        }
    }

    fn logic(&self, e: &SExp) -> bool {
        match e {
            SExp::Var(i) => !self.int_vals[*i].is_zero(),
            SExp::And(es) => es.iter().all(|a| self.logic(a)),
            SExp::Or(es) => es.iter().any(|a| self.logic(a)),
            SExp::Not(a) => !self.logic(a),
            SExp::Logic2(op, a, b) => op.apply(self.logic(a), self.logic(b)),
            _ => panic!("generator bug: non-boolean operand inside a logic operator"),
        }
    }

    fn expand(&self, e: &SExp) -> Vec<Branch> {
        match e {
            SExp::Num(d) => vec![(Aff::constant(self.nc, d.q()), vec![])],
            SExp::Var(i) => match self.cont_pos[*i] {
                Some(p) => {
                    let mut a = Aff::constant(self.nc, Q::ZERO);
                    a.a[p] = Q::ONE;
                    vec![(a, vec![])]
                }
                None => {
                    let _ = self.vars;
                    vec![(Aff::constant(self.nc, self.int_vals[*i]), vec![])]
                }
            },
            SExp::Add(l, r) | SExp::Sub(l, r) => {
                let (ls, rs) = (self.expand(l), self.expand(r));
                let mut out = Vec::new();
                for (fl, cl) in &ls {
                    for (fr, cr) in &rs {
                        let f = if matches!(e, SExp::Add(..)) {
                            fl.add(fr)
                        } else {
                            fl.sub(fr)
                        };
                        let mut c = cl.clone();
                        c.extend(cr.iter().cloned());
                        out.push((f, c));
                    }
                }
                out
            }
            SExp::MulL(c, x) | SExp::MulR(x, c) => self
                .expand(x)
                .into_iter()
                .map(|(f, cs)| (f.scale(c.q()), cs))
                .collect(),
            SExp::Div(x, c) => self
                .expand(x)
                .into_iter()
                .map(|(f, cs)| (f.scale(Q::ONE.div(c.q())), cs))
                .collect(),
            SExp::Neg(x) => self
                .expand(x)
                .into_iter()
                .map(|(f, cs)| (f.scale(Q::ONE.neg()), cs))
                .collect(),
            SExp::Abs(x) => {
                let mut out = Vec::new();
                for (f, cs) in self.expand(x) {
                    let mut c1 = cs.clone();
                    if Self::push_cond(&mut c1, f.con(Cmp::Ge)) {
                        out.push((f.clone(), c1));
                    }
                    let mut c2 = cs;
                    if Self::push_cond(&mut c2, f.con(Cmp::Le)) {
                        out.push((f.scale(Q::ONE.neg()), c2));
                    }
                }
                out
            }
            SExp::Min(es) | SExp::Max(es) => {
                let is_min = matches!(e, SExp::Min(_));
                let expanded: Vec<Vec<Branch>> = es.iter().map(|x| self.expand(x)).collect();
                // choose one branch per operand, then the operand that attains the extreme
                let mut combos: Vec<Vec<Branch>> = vec![vec![]];
                for opts in &expanded {
                    let mut next = Vec::new();
                    for c in &combos {
                        for o in opts {
                            let mut c2 = c.clone();
                            c2.push(o.clone());
                            next.push(c2);
                        }
                    }
                    combos = next;
                }
                let mut out = Vec::new();
                for combo in combos {
                    for w in 0..combo.len() {
                        let mut conds: Vec<ConQ> = combo.iter().flat_map(|b| b.1.clone()).collect();
                        let mut ok = true;
                        for (j, other) in combo.iter().enumerate() {
                            if j == w {
                                continue;
                            }
                            let diff = combo[w].0.sub(&other.0);
                            let cmp = if is_min { Cmp::Le } else { Cmp::Ge };
                            if !Self::push_cond(&mut conds, diff.con(cmp)) {
                                ok = false;
                                break;
                            }
                        }
                        if ok {
                            out.push((combo[w].0.clone(), conds));
                        }
                    }
                }
                out
            }
            SExp::And(_) | SExp::Or(_) | SExp::Not(_) | SExp::Logic2(..) => {
                let v = if self.logic(e) { Q::ONE } else { Q::ZERO };
                vec![(Aff::constant(self.nc, v), vec![])]
            }
        }
    }
}

#[derive(Clone, Debug, PartialEq)]
pub struct ExactRanges {
    /// None = the source model is infeasible (or the reference is unavailable).
    pub ranges: Option<Vec<(Option<Q>, Option<Q>)>>,
    pub regions: u64,
    /// The exact reference overflowed its i128 rationals on this model (extreme
    /// coefficients): clause (a) is not judged, clause (b) still is.
    pub unavailable: bool,
}

fn widen(r: &mut (Option<Q>, Option<Q>, bool), lo: Option<Q>, hi: Option<Q>) {
    // r.2 = "initialised"
    if !r.2 {
        *r = (lo, hi, true);
        return;
    }
    r.0 = match (r.0, lo) {
        (Some(a), Some(b)) => Some(a.min(b)),
        _ => None,
    };
    r.1 = match (r.1, hi) {
        (Some(a), Some(b)) => Some(a.max(b)),
        _ => None,
    };
}

pub fn exact_ranges(m: &SrcModel) -> ExactRanges {
    let n = m.vars.len();
    let int_idx: Vec<usize> = (0..n).filter(|i| m.vars[*i].dom.is_integer()).collect();
    let cont_idx: Vec<usize> = (0..n).filter(|i| !m.vars[*i].dom.is_integer()).collect();
    let nc = cont_idx.len();
    let mut cont_pos = vec![None; n];
    for (p, i) in cont_idx.iter().enumerate() {
        cont_pos[*i] = Some(p);
    }
    let bounds: Vec<(Option<Q>, Option<Q>)> =
        cont_idx.iter().map(|i| m.vars[*i].dom.bounds_q()).collect();
    let ranges_int: Vec<(i64, i64)> = int_idx
        .iter()
        .map(|i| m.vars[*i].dom.int_range().unwrap())
        .collect();
    let mut acc: Vec<(Option<Q>, Option<Q>, bool)> = vec![(None, None, false); n];
    let mut regions = 0u64;
    let mut any_feasible = false;
    if ranges_int.iter().any(|(lo, hi)| lo > hi) {
        return ExactRanges {
            ranges: None,
            regions,
            unavailable: false,
        };
    }
    let mut point: Vec<i64> = ranges_int.iter().map(|r| r.0).collect();
    'points: loop {
        let mut int_vals = vec![Q::ZERO; n];
        for (k, i) in int_idx.iter().enumerate() {
            int_vals[*i] = Q::int(point[k]);
        }
        let ex = Expander {
            vars: &m.vars,
            cont_pos: cont_pos.clone(),
            nc,
            int_vals: int_vals.clone(),
        };
        // region lists per constraint
        let mut per_con: Vec<Vec<Vec<ConQ>>> = Vec::new();
        let mut dead = false;
        for c in &m.cons {
            let (ls, rs) = (ex.expand(&c.lhs), ex.expand(&c.rhs));
            let mut regs = Vec::new();
            for (fl, cl) in &ls {
                for (fr, cr) in &rs {
                    let mut conds = cl.clone();
                    conds.extend(cr.iter().cloned());
                    if Expander::push_cond(&mut conds, fl.sub(fr).con(c.cmp)) {
                        regs.push(conds);
                    }
                }
            }
            if regs.is_empty() {
                dead = true;
                break;
            }
            per_con.push(regs);
        }
        if !dead {
            // depth-first product of the per-constraint regions
            let mut stack: Vec<(usize, Vec<ConQ>)> = vec![(0, Vec::new())];
            while let Some((ci, conds)) = stack.pop() {
                if ci == per_con.len() {
                    regions += 1;
                    // feasible?
                    let zero = vec![Q::ZERO; nc];
                    if nc > 0 && oracle::lp_extreme(nc, &conds, &bounds, &zero, false) == Verdict::Infeasible {
                        continue;
                    }
                    if nc == 0 && !conds.is_empty() {
                        unreachable!("conditions without continuous variables are folded");
                    }
                    any_feasible = true;
                    for (k, i) in int_idx.iter().enumerate() {
                        let v = Q::int(point[k]);
                        widen(&mut acc[*i], Some(v), Some(v));
                    }
                    for (p, i) in cont_idx.iter().enumerate() {
                        let mut obj = vec![Q::ZERO; nc];
                        obj[p] = Q::ONE;
                        let lo = match oracle::lp_extreme(nc, &conds, &bounds, &obj, false) {
                            Verdict::Optimal(q) => Some(q),
                            Verdict::Unbounded => None,
                            Verdict::Infeasible => unreachable!(),
                        };
                        let hi = match oracle::lp_extreme(nc, &conds, &bounds, &obj, true) {
                            Verdict::Optimal(q) => Some(q),
                            Verdict::Unbounded => None,
                            Verdict::Infeasible => unreachable!(),
                        };
                        widen(&mut acc[*i], lo, hi);
                    }
                    continue;
                }
                for reg in &per_con[ci] {
                    let mut c2 = conds.clone();
                    c2.extend(reg.iter().cloned());
                    // prune early
                    let zero = vec![Q::ZERO; nc];
                    if nc > 0
                        && !reg.is_empty()
                        && oracle::lp_extreme(nc, &c2, &bounds, &zero, false) == Verdict::Infeasible
                    {
                        continue;
                    }
                    stack.push((ci + 1, c2));
                }
            }
        }
        let mut k = 0;
        loop {
            if k == point.len() {
                break 'points;
            }
            if point[k] < ranges_int[k].1 {
                point[k] += 1;
                break;
            }
            point[k] = ranges_int[k].0;
            k += 1;
        }
    }
    ExactRanges {
        ranges: if any_feasible {
            Some(acc.into_iter().map(|r| (r.0, r.1)).collect())
        } else {
            None
        },
        regions,
        unavailable: false,
    }
}

thread_local! {
    static RANGE_CACHE: RefCell<HashMap<String, ExactRanges>> = RefCell::new(HashMap::new());
}

fn exact_ranges_cached(m: &SrcModel) -> ExactRanges {
    let key = serde_json::to_string(m).unwrap();
    if let Some(v) = RANGE_CACHE.with(|c| c.borrow().get(&key).cloned()) {
        return v;
    }
    let v = match catch_unwind(AssertUnwindSafe(|| exact_ranges(m))) {
        Ok(v) => v,
        Err(p) => {
            let msg = panic_message(p.as_ref());
            if msg.contains("Q overflow") || msg.contains("Q::from_f64") {
                ExactRanges {
                    ranges: None,
                    regions: 0,
                    unavailable: true,
                }
            } else {
                std::panic::resume_unwind(p)
            }
        }
    };
    RANGE_CACHE.with(|c| {
        let mut c = c.borrow_mut();
        if c.len() > 64 {
            c.clear();
        }
        c.insert(key, v.clone());
    });
    v
}

// ---------------------------------------------------------------------------------------
// the run

#[derive(Clone, Debug, Default)]
pub struct BoundsProbes {
    pub budget_hit: bool,
    pub quiescent: bool,
    pub infeasible_detected: bool,
    pub source_infeasible: bool,
    pub tightened_vars: u64,
    pub integer_rounded: u64,
    pub empty_integer_interval_kept: u64,
    pub infinite_range_published: u64,
    pub piecewise_reverse_applied: u64,
    pub linearize_ok: bool,
    pub linearize_err: bool,
    pub expr_points_checked: u64,
    pub exprs_checked: u64,
    pub oracle_unavailable: bool,
    pub published_box_checked: bool,
    pub extension_checked: bool,
}

pub struct BoundsRun {
    pub violations: Vec<Violation>,
    pub probes: BoundsProbes,
    pub steps_used: usize,
    /// Hash of the published ranges (distinct-state measure).
    pub state_hash: u64,
}

const RTOL: f64 = 1e-7;

fn contains_lo(published: f64, exact: Option<Q>, integer: bool) -> bool {
    match exact {
        None => published == f64::NEG_INFINITY,
        Some(q) => {
            let e = q.to_f64();
            if integer {
                published <= e
            } else {
                published <= e + RTOL * e.abs().max(1.0)
            }
        }
    }
}

fn contains_hi(published: f64, exact: Option<Q>, integer: bool) -> bool {
    match exact {
        None => published == f64::INFINITY,
        Some(q) => {
            let e = q.to_f64();
            if integer {
                published >= e
            } else {
                published >= e - RTOL * e.abs().max(1.0)
            }
        }
    }
}

fn type_bounds(t: &VariableType) -> (f64, f64) {
    match t {
        VariableType::Boolean => (0.0, 1.0),
        VariableType::IntegerRange(lo, hi) => (*lo as f64, *hi as f64),
        VariableType::Real(lo, hi) | VariableType::NonNegativeReal(lo, hi) => (*lo, *hi),
    }
}

fn fmt_q(q: Option<Q>, neg: bool) -> String {
    match q {
        Some(q) => format!("{q}"),
        None => (if neg { "-inf" } else { "+inf" }).to_string(),
    }
}

/// Sample points of the current variable box: corners, zeros, midpoints, seeded interior.
fn box_points(m: &SrcModel, ranges: &[(f64, f64)], seed: u64) -> Vec<Vec<f64>> {
    const BIG: f64 = 1_048_576.0;
    let n = m.vars.len();
    // candidate coordinates per variable
    let mut coords: Vec<Vec<f64>> = Vec::with_capacity(n);
    let mut spans: Vec<(f64, f64)> = Vec::with_capacity(n);
    for (i, v) in m.vars.iter().enumerate() {
        let (lo, hi) = ranges[i];
        let integer = v.dom.is_integer();
        let (lo_c, hi_c) = if integer {
            (lo.ceil(), hi.floor())
        } else {
            (lo, hi)
        };
        if !(lo_c <= hi_c) || lo_c == f64::INFINITY || hi_c == f64::NEG_INFINITY {
            return Vec::new(); // no assignment inside the box
        }
        // surrogate for an infinite side: far beyond the finite side (or the origin)
        let lo_f = if lo_c.is_finite() {
            lo_c
        } else if hi_c.is_finite() {
            hi_c.min(0.0) - BIG
        } else {
            -BIG
        };
        let hi_f = if hi_c.is_finite() {
            hi_c
        } else if lo_c.is_finite() {
            lo_c.max(0.0) + BIG
        } else {
            BIG
        };
        let mut c = vec![lo_f, hi_f];
        if lo_f < 0.0 && hi_f > 0.0 {
            c.push(0.0);
        }
        let mid = if integer {
            ((lo_f + hi_f) / 2.0).floor()
        } else {
            (lo_f + hi_f) / 2.0
        };
        if mid >= lo_f && mid <= hi_f {
            c.push(mid);
        }
        c.dedup();
        coords.push(c);
        spans.push((lo_f, hi_f));
    }
    let mut pts: Vec<Vec<f64>> = vec![vec![]];
    for c in &coords {
        let mut next = Vec::new();
        for p in &pts {
            for x in c {
                let mut p2 = p.clone();
                p2.push(*x);
                next.push(p2);
            }
        }
        pts = next;
        if pts.len() > 400 {
            pts.truncate(400);
        }
    }
    let mut rng = Rng::new(seed);
    for _ in 0..12 {
        let p: Vec<f64> = (0..n)
            .map(|i| {
                let (lo, hi) = spans[i];
                if m.vars[i].dom.is_integer() {
                    let span = (hi - lo).min(64.0) as i64;
                    lo + rng.range(0, span.max(0)) as f64
                } else {
                    let span = (hi - lo).min(64.0);
                    // clamp: lo + span can round a hair past hi
                    (lo + span * (rng.below(1025) as f64 / 1024.0)).clamp(lo, hi)
                }
            })
            .collect();
        pts.push(p);
    }
    pts
}

pub fn run_bounds_case(case: &BoundsCase) -> BoundsRun {
    let m = &case.model;
    let mut violations = Vec::new();
    let mut probes = BoundsProbes::default();
    let mut v = |class: &str, detail: String| {
        violations.push(Violation {
            prop: "C07".into(),
            class: class.into(),
            detail,
            entry: String::new(),
            truth: String::new(),
        })
    };
    let exact = exact_ranges_cached(m);
    probes.source_infeasible = exact.ranges.is_none() && !exact.unavailable;
    probes.oracle_unavailable = exact.unavailable;
    let domain = m.domain();
    let constraints = m.constraints();

    // 1. the analysis itself, interrupted after k steps
    let probe = match catch_unwind(AssertUnwindSafe(|| {
        BoundsProbe::analyze(&domain, &constraints, case.k)
    })) {
        Ok(p) => p,
        Err(p) => {
            v(
                "panic",
                format!("bound analysis panicked with budget {:?}: {}", case.k, panic_message(p.as_ref())),
            );
            return BoundsRun {
                violations,
                probes,
                steps_used: 0,
                state_hash: 0,
            };
        }
    };
    let steps_used = probe.steps_used();
    probes.budget_hit = probe.reached_iteration_limit();
    probes.quiescent = !probe.reached_iteration_limit();
    probes.infeasible_detected = probe.detected_infeasible();

    // published domains through the hook
    let mut published = domain.clone();
    probe.apply_to_domain(&mut published);
    let mut state_bytes = Vec::new();
    // ratio between the largest and the smallest coefficient magnitude of the model
    let amplification = {
        let mut lo = 1.0f64;
        let mut hi = 1.0f64;
        for c in &m.cons {
            let mut subs = Vec::new();
            c.lhs.subexpressions(&mut subs);
            c.rhs.subexpressions(&mut subs);
            for e in subs {
                if let SExp::MulL(d, _) | SExp::MulR(_, d) | SExp::Div(_, d) = e {
                    let v = if matches!(e, SExp::Div(..)) { 1.0 / d.f().abs() } else { d.f().abs() };
                    if v > 0.0 && v.is_finite() {
                        lo = lo.min(v);
                        hi = hi.max(v);
                    }
                }
            }
        }
        hi / lo
    };
    let mut check_published = |source: &str, types: &IndexMap<String, DomainVariable>, v: &mut dyn FnMut(&str, String), probes: &mut BoundsProbes| {
        for (i, var) in m.vars.iter().enumerate() {
            let Some(dv) = types.get(&var.name) else {
                continue;
            };
            let (plo, phi) = type_bounds(dv.get_type());
            state_bytes.extend_from_slice(&plo.to_bits().to_le_bytes());
            state_bytes.extend_from_slice(&phi.to_bits().to_le_bytes());
            let integer = var.dom.is_integer();
            let (dlo, dhi) = var.dom.bounds_f64();
            if plo > dlo || phi < dhi {
                probes.tightened_vars += 1;
            }
            if plo == f64::NEG_INFINITY || phi == f64::INFINITY {
                probes.infinite_range_published += 1;
            }
            if exact.unavailable {
                continue;
            }
            let Some(er) = &exact.ranges else {
                // infeasible source: vacuous, but the range must still be a range
                if plo.is_nan() || phi.is_nan() {
                    v("nan-range", format!("{source}: variable `{}` has range [{plo}, {phi}]", var.name));
                }
                continue;
            };
            let (elo, ehi) = er[i];
            // how much is cut off: within what the analyzer's own absolute tolerance (1e-9,
            // also used for integer rounding) or f64 rounding can produce once it is
            // amplified by the ratio of the model's coefficient magnitudes, or more
            let class_for = |published: f64, exact: Option<Q>| -> &'static str {
                match exact {
                    Some(q) if amplification >= 1e6 => {
                        let e = q.to_f64();
                        if (published - e).abs() <= 4e-9 * amplification {
                            "range-cuts-feasible-point:tolerance-amplified"
                        } else {
                            "range-cuts-feasible-point"
                        }
                    }
                    _ => "range-cuts-feasible-point",
                }
            };
            if !contains_lo(plo, elo, integer) {
                v(
                    class_for(plo, elo),
                    format!(
                        "{source}: published lower bound {plo} of `{}` (budget {:?}) but a source-feasible assignment has {} = {}",
                        var.name,
                        case.k,
                        var.name,
                        fmt_q(elo, true)
                    ),
                );
            }
            if !contains_hi(phi, ehi, integer) {
                v(
                    class_for(phi, ehi),
                    format!(
                        "{source}: published upper bound {phi} of `{}` (budget {:?}) but a source-feasible assignment has {} = {}",
                        var.name,
                        case.k,
                        var.name,
                        fmt_q(ehi, false)
                    ),
                );
            }
        }
    };
    check_published("analysis", &published, &mut v, &mut probes);

    // integer rounding probes
    for var in &m.vars {
        if let (Some((lo, hi)), Some(dv)) = (probe.variable_range(&var.name), published.get(&var.name)) {
            if var.dom.is_integer() && matches!(var.dom, Dom::Int { .. }) {
                if lo.fract() != 0.0 || hi.fract() != 0.0 {
                    probes.integer_rounded += 1;
                }
                if (lo - 1e-9).ceil() > (hi + 1e-9).floor() {
                    probes.empty_integer_interval_kept += 1;
                    let _ = dv;
                }
            }
        }
    }

    // 2. expression ranges at this instant
    let ranges: Vec<(f64, f64)> = m
        .vars
        .iter()
        .map(|var| probe.variable_range(&var.name).unwrap_or((f64::NEG_INFINITY, f64::INFINITY)))
        .collect();
    for (i, (lo, hi)) in ranges.iter().enumerate() {
        if lo.is_nan() || hi.is_nan() {
            v("nan-range", format!("analysis: variable `{}` has range [{lo}, {hi}]", m.vars[i].name));
        }
    }
    let seed = fnv(serde_json::to_string(case).unwrap().as_bytes());
    let mut pts = box_points(m, &ranges, seed);
    let n_internal = pts.len();
    // (b') the same enclosures against the *published* variable ranges. For a feasible
    // source the published box is the analyzer's box after rounding (a subset), so this
    // adds nothing on a correct tree; it exposes a tree that publishes one set of ranges
    // and keeps deriving expression ranges from another.
    // (Boolean domains are never narrowed when published, by design of apply_to_domain:
    // for them the derived range stands in.)
    let published_ranges: Vec<(f64, f64)> = m
        .vars
        .iter()
        .enumerate()
        .map(|(i, var)| {
            if matches!(var.dom, Dom::Bool) {
                return ranges[i];
            }
            published
                .get(&var.name)
                .map(|d| type_bounds(d.get_type()))
                .unwrap_or((f64::NEG_INFINITY, f64::INFINITY))
        })
        .collect();
    if exact.ranges.is_some() {
        probes.published_box_checked = true;
        pts.extend(box_points(m, &published_ranges, seed ^ 0x5bd1_e995));
    }
    if !pts.is_empty() {
        let mut subs: Vec<&SExp> = Vec::new();
        for c in &m.cons {
            c.lhs.subexpressions(&mut subs);
            c.rhs.subexpressions(&mut subs);
        }
        'exprs: for e in subs {
            if matches!(e, SExp::Num(_)) {
                continue;
            }
            let exp = e.to_exp(&m.vars);
            let (bl, bu) = match catch_unwind(AssertUnwindSafe(|| probe.bounds_of(&exp))) {
                Ok(b) => b,
                Err(p) => {
                    v("panic", format!("bounds_of({e}) panicked: {}", panic_message(p.as_ref())));
                    break;
                }
            };
            probes.exprs_checked += 1;
            if bl.is_nan() || bu.is_nan() {
                v("nan-range", format!("range of `{e}` is [{bl}, {bu}]"));
                continue;
            }
            for (pi, p) in pts.iter().enumerate() {
                let val = e.eval(p);
                probes.expr_points_checked += 1;
                if !val.is_finite() {
                    continue;
                }
                // published integer bounds are rounded with a 1e-9 slack: allow for it
                let tol = if pi < n_internal { 1e-9 } else { 1e-7 } * val.abs().max(1.0)
                    + 1e-13 * e.magnitude(p);
                if val < bl - tol || val > bu + tol {
                    v(
                        "expression-range",
                        format!(
                            "range of `{e}` derived as [{bl}, {bu}] with {} variable ranges {:?} (budget {:?}), but at {:?} it evaluates to {val}",
                            if pi < n_internal { "derived" } else { "published" },
                            if pi < n_internal { &ranges } else { &published_ranges },
                            case.k,
                            p
                        ),
                    );
                    continue 'exprs;
                }
            }
        }
    }

    // 3. the same instant through the real pipeline: Linearizer::linearize
    verif_hooks::set_max_steps_override(case.k);
    let lin = catch_unwind(AssertUnwindSafe(|| Linearizer::linearize(m.to_model())));
    verif_hooks::set_max_steps_override(None);
    match lin {
        Ok(Ok(lm)) => {
            probes.linearize_ok = true;
            check_published("Linearizer::linearize", lm.domain(), &mut v, &mut probes);
            // every published range, those of the compiler's auxiliary variables included:
            // a known source-feasible assignment of the declared variables must still be
            // extendable to the compiled model (some values of the auxiliaries inside their
            // published ranges satisfy every row)
            if let Some(w) = witness_if_feasible(m) {
                match extension_feasible(m, &lm, &w) {
                    Some(true) => probes.extension_checked = true,
                    Some(false) => v(
                        "compiled-model-cuts-feasible-point",
                        format!(
                            "budget {:?}: the source-feasible assignment {:?} cannot be extended to the compiled model (rows and published ranges, auxiliaries included): {}",
                            case.k,
                            w.iter().map(|q| q.to_string()).collect::<Vec<_>>(),
                            lm.to_string().replace('\n', " / ")
                        ),
                    ),
                    None => {}
                }
            }
        }
        Ok(Err(_)) => probes.linearize_err = true,
        Err(p) => v(
            "panic",
            format!("Linearizer::linearize panicked with budget {:?}: {}", case.k, panic_message(p.as_ref())),
        ),
    }
    drop(check_published);
    let piecewise = m.cons.iter().any(|c| {
        let mut subs = Vec::new();
        c.lhs.subexpressions(&mut subs);
        c.rhs.subexpressions(&mut subs);
        subs.iter().any(|e| matches!(e, SExp::Abs(_) | SExp::Min(_) | SExp::Max(_)))
    });
    if piecewise && probes.tightened_vars > 0 {
        probes.piecewise_reverse_applied += 1;
    }
    BoundsRun {
        violations,
        probes,
        steps_used,
        state_hash: fnv(&state_bytes),
    }
}

/// The planted point, if it really satisfies every source constraint and domain (exactly).
fn witness_if_feasible(m: &SrcModel) -> Option<Vec<Q>> {
    let w: Vec<Q> = m.witness.as_ref()?.iter().map(|d| d.q()).collect();
    if w.len() != m.vars.len() {
        return None;
    }
    for (q, var) in w.iter().zip(&m.vars) {
        let (lo, hi) = var.dom.bounds_q();
        if lo.is_some_and(|l| *q < l) || hi.is_some_and(|h| *q > h) {
            return None;
        }
        if var.dom.is_integer() && !q.is_integer() {
            return None;
        }
    }
    for c in &m.cons {
        let d = c.lhs.eval_q(&w).sub(c.rhs.eval_q(&w));
        let ok = match c.cmp {
            Cmp::Le => !d.is_pos(),
            Cmp::Ge => !d.is_neg(),
            Cmp::Eq => d.is_zero(),
        };
        if !ok {
            return None;
        }
    }
    // ... and under the f64 reading of the same text too: `b <= 1.9 + -0.9` admits b = 1 in
    // decimal arithmetic, while in f64 the right-hand side is 0.9999999999999999. A point
    // that is feasible under one reading only sits inside a tolerance and decides nothing
    // about the compiled rows (DESIGN.md section 9).
    let wf: Vec<f64> = w.iter().map(|q| q.to_f64()).collect();
    for c in &m.cons {
        let d = c.lhs.eval(&wf) - c.rhs.eval(&wf);
        let ok = match c.cmp {
            Cmp::Le => d <= 0.0,
            Cmp::Ge => d >= 0.0,
            Cmp::Eq => d == 0.0,
        };
        if !ok {
            return None;
        }
    }
    Some(w)
}

/// With the declared variables fixed at `w`, is there an assignment of the remaining
/// (auxiliary) variables of the compiled model, inside their published ranges, that
/// satisfies every row? Rows are relaxed by 1e-7 (relative to their scale) to absorb the
/// f64 reading of decimal constants. `None` when the question cannot be decided here.
fn extension_feasible(m: &SrcModel, lm: &rooc::LinearModel, w: &[Q]) -> Option<bool> {
    use crate::model::{GenModel, Row, Sense};
    let names = lm.variables();
    let decl: Vec<Option<usize>> = names
        .iter()
        .map(|n| m.vars.iter().position(|v| &v.name == n))
        .collect();
    // published ranges of the declared variables must contain the witness (clause 1
    // already checks that against the exact extremes; here against this very point)
    let mut aux_vars: Vec<crate::model::Var> = Vec::new();
    let mut aux_cols: Vec<usize> = Vec::new();
    for (j, n) in names.iter().enumerate() {
        if decl[j].is_some() {
            continue;
        }
        let t = lm.domain().get(n)?.get_type();
        let dom = match t {
            VariableType::Boolean => Dom::Bool,
            VariableType::IntegerRange(lo, hi) => Dom::Int { lo: *lo, hi: *hi },
            VariableType::Real(lo, hi) | VariableType::NonNegativeReal(lo, hi) => {
                if lo.is_nan() || hi.is_nan() {
                    return Some(false);
                }
                Dom::Real {
                    lo: lo.is_finite().then_some(*lo),
                    hi: hi.is_finite().then_some(*hi),
                }
            }
        };
        aux_vars.push(crate::model::Var {
            name: n.clone(),
            dom,
        });
        aux_cols.push(j);
    }
    if aux_vars.iter().filter(|v| !v.dom.is_integer()).count() > 4
        || aux_vars
            .iter()
            .filter_map(|v| v.dom.int_range())
            .map(|(lo, hi)| (hi - lo + 1).max(1) as u64)
            .product::<u64>()
            > 4096
    {
        return None;
    }
    let mut rows: Vec<Row> = Vec::new();
    for c in lm.constraints() {
        let coefs = c.coefficients();
        if coefs.iter().any(|a| !a.is_finite()) || c.rhs().is_nan() {
            return None; // not a row exact arithmetic can speak about: undecided
        }
        if c.rhs().is_infinite() {
            let vacuous = match c.constraint_type() {
                Comparison::LessOrEqual | Comparison::Less => c.rhs() > 0.0,
                Comparison::GreaterOrEqual | Comparison::Greater => c.rhs() < 0.0,
                Comparison::Equal => false,
            };
            if vacuous {
                continue;
            }
            return Some(false); // `lhs >= +inf` and the like: no point satisfies it
        }
        // constant part contributed by the fixed declared variables, exactly
        let mut fixed = Q::ZERO;
        let mut scale = c.rhs().abs().max(1.0);
        for (j, a) in coefs.iter().enumerate() {
            if let Some(i) = decl[j] {
                if *a != 0.0 {
                    let term = Q::from_f64(*a).mul(w[i]);
                    scale = scale.max(term.to_f64().abs());
                    fixed = fixed.add(term);
                }
            }
        }
        let rhs = Q::from_f64(c.rhs()).sub(fixed).to_f64();
        let tol = 1e-7 * scale;
        let aux_coefs: Vec<f64> = aux_cols.iter().map(|j| coefs[*j]).collect();
        let mut push = |cmp: Cmp, rhs: f64| {
            rows.push(Row {
                name: String::new(),
                coefs: aux_coefs.clone(),
                cmp,
                rhs,
            })
        };
        match c.constraint_type() {
            Comparison::LessOrEqual | Comparison::Less => push(Cmp::Le, rhs + tol),
            Comparison::GreaterOrEqual | Comparison::Greater => push(Cmp::Ge, rhs - tol),
            Comparison::Equal => {
                push(Cmp::Le, rhs + tol);
                push(Cmp::Ge, rhs - tol);
            }
        }
    }
    let n = aux_vars.len();
    let g = GenModel {
        vars: aux_vars,
        rows,
        obj: vec![0.0; n],
        offset: 0.0,
        sense: Sense::Satisfy,
        decor: Vec::new(),
    };
    let verdict = catch_unwind(AssertUnwindSafe(|| oracle::decide(&g).verdict));
    match verdict {
        Ok(Verdict::Infeasible) => Some(false),
        Ok(_) => Some(true),
        Err(_) => None, // the exact reference overflowed on this data: undecided
    }
}

/// Steps the work-list needs to go quiescent under the shipped budget.
pub fn steps_to_quiescence(m: &SrcModel) -> Option<usize> {
    let domain = m.domain();
    let constraints = m.constraints();
    catch_unwind(AssertUnwindSafe(|| {
        BoundsProbe::analyze(&domain, &constraints, None).steps_used()
    }))
    .ok()
}

// ---------------------------------------------------------------------------------------
// generation

fn dec_palette(rng: &mut Rng, inexact: bool) -> Dec {
    if inexact && rng.chance(1, 2) {
        // decimals that are not exact in binary
        let n = *rng.pick(&[1i64, 3, 7, 9, 11, 19, 21, 33]);
        Dec { n, d: 10 }
    } else {
        match rng.weighted(&[60, 25, 15]) {
            0 => Dec::int(rng.range(1, 4)),
            1 => Dec::int(rng.range(1, 9)),
            _ => Dec {
                n: rng.range(1, 9),
                d: 2,
            },
        }
    }
}

fn signed(rng: &mut Rng, d: Dec) -> Dec {
    if rng.chance(2, 5) {
        Dec { n: -d.n, d: d.d }
    } else {
        d
    }
}

fn gen_var_dom(rng: &mut Rng) -> Dom {
    match rng.weighted(&[12, 22, 22, 14, 15, 15]) {
        0 => Dom::Bool,
        1 => {
            let lo = rng.range(-4, 3) as i32;
            Dom::Int {
                lo,
                hi: lo + rng.range(0, 5) as i32,
            }
        }
        2 => {
            let lo = rng.range(-8, 4) as f64;
            Dom::Real {
                lo: Some(lo),
                hi: Some(lo + rng.range(0, 12) as f64),
            }
        }
        3 => match rng.below(3) {
            0 => Dom::Real { lo: None, hi: None },
            1 => Dom::Real {
                lo: Some(rng.range(-5, 5) as f64),
                hi: None,
            },
            _ => Dom::Real {
                lo: None,
                hi: Some(rng.range(-5, 5) as f64),
            },
        },
        4 => Dom::NonNeg {
            lo: 0.0,
            hi: Some(rng.range(1, 12) as f64),
        },
        _ => Dom::NonNeg { lo: 0.0, hi: None },
    }
}

fn term(rng: &mut Rng, var: usize, inexact: bool) -> SExp {
    let c = { let d = dec_palette(rng, inexact); signed(rng, d) };
    if c.n == c.d {
        return SExp::Var(var);
    }
    match rng.below(5) {
        0 => SExp::MulR(Box::new(SExp::Var(var)), c),
        1 if c.n != 0 && c.d == 1 && rng.chance(1, 2) => {
            // x / c
            SExp::Div(Box::new(SExp::Var(var)), Dec { n: c.n, d: 1 })
        }
        2 if c.n < 0 => SExp::Neg(Box::new(SExp::MulL(Dec { n: -c.n, d: c.d }, Box::new(SExp::Var(var))))),
        _ => SExp::MulL(c, Box::new(SExp::Var(var))),
    }
}

fn affine(rng: &mut Rng, n: usize, inexact: bool, max_terms: usize) -> SExp {
    let k = rng.usize(1, max_terms.min(n).max(1));
    let mut idx: Vec<usize> = (0..n).collect();
    rng.shuffle(&mut idx);
    let mut e = term(rng, idx[0], inexact);
    for j in 1..k {
        let t = term(rng, idx[j], inexact);
        e = if rng.chance(1, 4) {
            SExp::Sub(Box::new(e), Box::new(t))
        } else {
            SExp::Add(Box::new(e), Box::new(t))
        };
    }
    if rng.chance(1, 4) {
        let c = SExp::Num({ let d = dec_palette(rng, false); signed(rng, d) });
        e = if rng.chance(1, 2) {
            SExp::Add(Box::new(e), Box::new(c))
        } else {
            SExp::Sub(Box::new(e), Box::new(c))
        };
    }
    if rng.chance(1, 12) {
        // a group multiplied by a coefficient that happens to be zero (data-driven rows):
        // 0 * (x + 5) contributes nothing, not even its constant
        let inner = SExp::Add(
            Box::new(SExp::Var(rng.usize(0, n - 1))),
            Box::new(SExp::Num(Dec::int(rng.range(-6, 9)))),
        );
        let zero = if rng.chance(1, 2) {
            SExp::MulL(Dec::int(0), Box::new(inner))
        } else {
            SExp::MulR(Box::new(inner), Dec::int(0))
        };
        e = if rng.chance(1, 2) {
            SExp::Add(Box::new(e), Box::new(zero))
        } else {
            SExp::Sub(Box::new(e), Box::new(zero))
        };
    }
    e
}

fn piecewise(rng: &mut Rng, vars: &[Var], inexact: bool, depth: usize) -> SExp {
    let n = vars.len();
    let leaf = |rng: &mut Rng| affine(rng, n, inexact, 2);
    match rng.below(if depth == 0 { 6 } else { 4 }) {
        0 => SExp::Abs(Box::new(leaf(rng))),
        1 => SExp::Min((0..rng.usize(2, 4)).map(|_| leaf(rng)).collect()),
        2 => SExp::Max((0..rng.usize(2, 4)).map(|_| leaf(rng)).collect()),
        3 => {
            // coefficient times a piecewise node plus an affine part
            let inner = piecewise(rng, vars, inexact, depth + 1);
            let c = { let d = dec_palette(rng, false); signed(rng, d) };
            SExp::Add(Box::new(SExp::MulL(c, Box::new(inner))), Box::new(leaf(rng)))
        }
        4 => {
            // nested
            let inner = piecewise(rng, vars, inexact, depth + 1);
            match rng.below(3) {
                0 => SExp::Abs(Box::new(inner)),
                1 => SExp::Max(vec![inner, leaf(rng)]),
                _ => SExp::Neg(Box::new(inner)),
            }
        }
        _ => {
            let bools: Vec<usize> = (0..n).filter(|i| matches!(vars[*i].dom, Dom::Bool)).collect();
            if bools.is_empty() {
                SExp::Abs(Box::new(leaf(rng)))
            } else {
                let pickb = |rng: &mut Rng| SExp::Var(*rng.pick(&bools));
                let logic = match rng.below(6) {
                    0 => SExp::And(vec![pickb(rng), pickb(rng)]),
                    1 => SExp::Or(vec![pickb(rng), SExp::Not(Box::new(pickb(rng)))]),
                    2 => SExp::Not(Box::new(pickb(rng))),
                    3 => SExp::Logic2(LOp::Implies, Box::new(pickb(rng)), Box::new(pickb(rng))),
                    4 => SExp::Logic2(LOp::Iff, Box::new(pickb(rng)), Box::new(pickb(rng))),
                    _ => SExp::Logic2(LOp::Xor, Box::new(pickb(rng)), Box::new(pickb(rng))),
                };
                SExp::Add(Box::new(logic), Box::new(leaf(rng)))
            }
        }
    }
}

fn rhs_const(rng: &mut Rng, inexact: bool) -> SExp {
    if inexact && rng.chance(1, 2) {
        SExp::Num(Dec {
            n: rng.range(-40, 90),
            d: 10,
        })
    } else if rng.chance(1, 5) {
        SExp::Num(Dec {
            n: rng.range(-9, 21),
            d: 2,
        })
    } else {
        SExp::Num(Dec::int(rng.range(-6, 14)))
    }
}

fn cmp3(rng: &mut Rng) -> Cmp {
    match rng.weighted(&[45, 35, 20]) {
        0 => Cmp::Le,
        1 => Cmp::Ge,
        _ => Cmp::Eq,
    }
}

/// Makes the constraints hold at a seeded point of the declared domains by shifting each
/// right-hand side by an exact constant (keeps the shape, makes feasible sources common).
fn plant_feasible(rng: &mut Rng, m: &mut SrcModel) {
    let star: Vec<Q> = m
        .vars
        .iter()
        .map(|v| match &v.dom {
            Dom::Bool => Q::int(rng.range(0, 1)),
            Dom::Int { lo, hi } => Q::int(rng.range(*lo as i64, *hi as i64)),
            d => {
                let (lo, hi) = d.bounds_f64();
                let (lo_i, hi_i) = match (lo.is_finite(), hi.is_finite()) {
                    (true, true) => (lo.ceil() as i64, hi.floor() as i64),
                    (true, false) => (lo.ceil() as i64, lo.ceil() as i64 + 6),
                    (false, true) => (hi.floor() as i64 - 6, hi.floor() as i64),
                    (false, false) => (-4, 4),
                };
                if lo_i > hi_i {
                    Q::from_f64(lo) // a narrow finite interval without an integer inside
                } else {
                    Q::new(rng.range(lo_i * 2, hi_i * 2) as i128, 2)
                }
            }
        })
        .collect();
    for c in &mut m.cons {
        let diff = c.lhs.eval_q(&star).sub(c.rhs.eval_q(&star)); // lhs - rhs at the point
        if diff.denom() > 1000 || diff.numer().abs() > 1_000_000 {
            continue;
        }
        let slack = Q::new(rng.range(0, 4) as i128, 2);
        // new rhs = rhs + shift, so that lhs - rhs - shift has the right sign
        let shift = match c.cmp {
            Cmp::Eq => diff,
            Cmp::Le => diff.add(slack),
            Cmp::Ge => diff.sub(slack),
        };
        if shift.is_zero() {
            continue;
        }
        let d = Dec {
            n: shift.numer() as i64,
            d: shift.denom() as i64,
        };
        c.rhs = SExp::Add(Box::new(c.rhs.clone()), Box::new(SExp::Num(d)));
    }
    if star.iter().all(|q| q.denom() <= 1000 && q.numer().abs() < 1_000_000_000) {
        m.witness = Some(
            star.iter()
                .map(|q| Dec {
                    n: q.numer() as i64,
                    d: q.denom() as i64,
                })
                .collect(),
        );
    }
}

pub fn gen_src_model(rng: &mut Rng) -> (String, SrcModel) {
    for _ in 0..200 {
        let (label, mut m) = gen_src_model_once(rng);
        if label != "contradictory" && label != "extreme-coefficient" && rng.chance(3, 5) {
            plant_feasible(rng, &mut m);
        }
        if m.well_formed() && m.int_points() <= MAX_INT_POINTS && m.vars.iter().filter(|v| !v.dom.is_integer()).count() <= 3 {
            return (label, m);
        }
    }
    panic!("bounds generator could not produce a model within limits");
}

fn gen_src_model_once(rng: &mut Rng) -> (String, SrcModel) {
    let shape = rng.weighted(&[26, 12, 22, 8, 9, 9, 8, 3, 5, 4, 5]);
    let inexact = rng.chance(1, 4);
    let n = rng.usize(2, 4);
    let names: Vec<String> = (0..n).map(|i| format!("v{i}")).collect();
    let mut vars: Vec<Var> = names
        .iter()
        .map(|name| Var {
            name: name.clone(),
            dom: gen_var_dom(rng),
        })
        .collect();
    let mut cons: Vec<SCon> = Vec::new();
    let mut push = |cons: &mut Vec<SCon>, lhs: SExp, cmp: Cmp, rhs: SExp| {
        let name = if cons.len() % 2 == 0 {
            format!("c{}", cons.len())
        } else {
            String::new()
        };
        cons.push(SCon {
            name,
            lhs,
            cmp,
            rhs,
        })
    };
    let label = match shape {
        0 => {
            // plain affine rows
            for _ in 0..rng.usize(1, 4) {
                let lhs = affine(rng, n, inexact, 3);
                let rhs = if rng.chance(1, 4) {
                    affine(rng, n, inexact, 2)
                } else {
                    rhs_const(rng, inexact)
                };
                push(&mut cons, lhs, cmp3(rng), rhs);
            }
            "affine"
        }
        1 => {
            // chain: v0 <= v1 + c, v1 <= v2 + c, ..., last <= const
            for i in 0..n - 1 {
                let c = SExp::Num(Dec::int(rng.range(-2, 3)));
                let rhs = SExp::Add(Box::new(SExp::Var(i + 1)), Box::new(c));
                let cmp = if rng.chance(1, 4) { Cmp::Eq } else { Cmp::Le };
                push(&mut cons, SExp::Var(i), cmp, rhs);
            }
            push(&mut cons, SExp::Var(n - 1), Cmp::Le, rhs_const(rng, inexact));
            if rng.chance(1, 2) {
                push(&mut cons, SExp::Var(0), Cmp::Ge, rhs_const(rng, inexact));
            }
            let mut shuffled = std::mem::take(&mut cons);
            rng.shuffle(&mut shuffled);
            cons = shuffled;
            "chain"
        }
        2 => {
            // piecewise rows mixed with affine rows
            for _ in 0..rng.usize(1, 2) {
                let pw = piecewise(rng, &vars, inexact, 0);
                let other = if rng.chance(1, 4) {
                    affine(rng, n, inexact, 2)
                } else {
                    rhs_const(rng, inexact)
                };
                if rng.chance(1, 5) {
                    push(&mut cons, other, cmp3(rng), pw);
                } else {
                    push(&mut cons, pw, cmp3(rng), other);
                }
            }
            for _ in 0..rng.usize(0, 2) {
                let lhs = affine(rng, n, inexact, 3);
                push(&mut cons, lhs, cmp3(rng), rhs_const(rng, inexact));
            }
            "piecewise"
        }
        3 => {
            // contradictory rows among ordinary ones
            let lhs = affine(rng, n, false, 2);
            let b = rng.range(-3, 6);
            push(&mut cons, lhs.clone(), Cmp::Ge, SExp::Num(Dec::int(b + rng.range(1, 3))));
            for _ in 0..rng.usize(0, 2) {
                let l2 = affine(rng, n, inexact, 3);
                push(&mut cons, l2, cmp3(rng), rhs_const(rng, inexact));
            }
            push(&mut cons, lhs, Cmp::Le, SExp::Num(Dec::int(b)));
            "contradictory"
        }
        4 => {
            // slow convergence: x <= a*y + b, y <= x + c with a just below 1
            let a = *rng.pick(&[
                Dec { n: 1, d: 2 },
                Dec { n: 3, d: 4 },
                Dec { n: 9, d: 10 },
                Dec { n: 15, d: 16 },
                Dec { n: 99, d: 100 },
            ]);
            let big = *rng.pick(&[50i64, 200, 1000]);
            vars[0].dom = Dom::Real {
                lo: Some(0.0),
                hi: Some(big as f64),
            };
            vars[1].dom = if rng.chance(1, 2) {
                Dom::Real {
                    lo: Some(0.0),
                    hi: Some(big as f64),
                }
            } else {
                Dom::NonNeg {
                    lo: 0.0,
                    hi: Some(big as f64),
                }
            };
            let b = SExp::Num(Dec::int(rng.range(0, 5)));
            push(
                &mut cons,
                SExp::Var(0),
                Cmp::Le,
                SExp::Add(Box::new(SExp::MulL(a, Box::new(SExp::Var(1)))), Box::new(b)),
            );
            push(
                &mut cons,
                SExp::Var(1),
                Cmp::Le,
                SExp::Add(Box::new(SExp::Var(0)), Box::new(SExp::Num(Dec::int(rng.range(0, 3))))),
            );
            if n > 2 && rng.chance(1, 2) {
                push(&mut cons, SExp::Var(2), Cmp::Le, SExp::Var(0));
            }
            "slow-convergence"
        }
        10 => {
            // a binary connective over two Booleans used as a 0/1 number next to a numeric
            // variable, with one operand pinned by another row (directly, or through a
            // little chain) so that propagation decides or half-decides the connective
            vars[0].dom = if rng.chance(1, 2) {
                Dom::Int { lo: 0, hi: rng.range(10, 100) as i32 }
            } else {
                Dom::Real { lo: Some(-(rng.range(0, 5) as f64)), hi: Some(rng.range(8, 60) as f64) }
            };
            vars[1].dom = Dom::Bool;
            let (a, b) = if n > 2 {
                vars[2].dom = Dom::Bool;
                (1usize, 2usize)
            } else {
                (1usize, 1usize)
            };
            let op = *rng.pick(&[LOp::Implies, LOp::Implies, LOp::Iff, LOp::Xor]);
            let (l, r) = if rng.chance(1, 2) { (a, b) } else { (b, a) };
            let mut logic = SExp::Logic2(op, Box::new(SExp::Var(l)), Box::new(SExp::Var(r)));
            if rng.chance(1, 4) {
                logic = SExp::Not(Box::new(logic));
            }
            let scaled = SExp::MulL(Dec::int(rng.range(1, 6)), Box::new(logic));
            let body = SExp::Add(Box::new(SExp::Num(Dec::int(rng.range(0, 4)))), Box::new(scaled));
            let body = match rng.below(3) {
                0 => body,
                1 => SExp::Max(vec![body, SExp::Num(Dec::int(rng.range(0, 3)))]),
                _ => SExp::Abs(Box::new(body)),
            };
            push(&mut cons, SExp::Var(0), if rng.chance(2, 3) { Cmp::Ge } else { Cmp::Le }, body);
            // the pin
            let pinned = *rng.pick(&[a, b]);
            match rng.below(4) {
                0 => push(&mut cons, SExp::Var(pinned), Cmp::Ge, SExp::Num(Dec::int(1))),
                1 => push(&mut cons, SExp::Var(pinned), Cmp::Le, SExp::Num(Dec::int(0))),
                2 if n > 3 => {
                    // b + c <= 1, c >= 1  =>  b = 0
                    vars[3].dom = Dom::Bool;
                    push(
                        &mut cons,
                        SExp::Add(Box::new(SExp::Var(pinned)), Box::new(SExp::Var(3))),
                        Cmp::Le,
                        SExp::Num(Dec::int(1)),
                    );
                    push(&mut cons, SExp::Var(3), Cmp::Ge, SExp::Num(Dec::int(1)));
                }
                _ => {}
            }
            "logic-as-number"
        }
        9 => {
            // large magnitudes with a row that is tight (or nearly so) at the variables' own
            // bounds: c1*x + c2*y >= c1*X + c2*Y - slack with x in [0,X], y in [0,Y], X and Y
            // of the order 1e6..1e9. One ulp of such numbers exceeds the analyzer's absolute
            // tolerance, so a division can round the wrong way and a feasible model can look
            // contradictory half-way through a row.
            let cs = [
                Dec { n: 1, d: 2 },
                Dec::int(75),
                Dec::int(3),
                Dec { n: 1, d: 4 },
                Dec::int(7),
                Dec { n: 3, d: 10 },
            ];
            let c1 = *rng.pick(&cs);
            let c2 = *rng.pick(&cs);
            let xs = [2_000_000i64, 10_000_000, 250_000_000, 500_000_000];
            let (bx, by) = (*rng.pick(&xs), *rng.pick(&xs));
            vars[0].dom = Dom::Real { lo: Some(0.0), hi: Some(bx as f64) };
            vars[1].dom = Dom::Real { lo: Some(0.0), hi: Some(by as f64) };
            let slack = *rng.pick(&[0i64, 0, 1000, 1_000_000]);
            // rhs = c1*X + c2*Y - slack, exactly
            let rhs_n = c1.n * bx * c2.d + c2.n * by * c1.d - slack * c1.d * c2.d;
            let rhs = Dec { n: rhs_n, d: c1.d * c2.d };
            let lhs = SExp::Add(
                Box::new(SExp::MulL(c1, Box::new(SExp::Var(0)))),
                Box::new(SExp::MulL(c2, Box::new(SExp::Var(1)))),
            );
            if rng.chance(1, 2) {
                push(&mut cons, lhs, Cmp::Ge, SExp::Num(rhs));
            } else {
                // the mirrored form: -(c1 x + c2 y) <= -rhs
                push(&mut cons, SExp::Neg(Box::new(lhs)), Cmp::Le, SExp::Num(Dec { n: -rhs.n, d: rhs.d }));
            }
            if n > 2 && rng.chance(1, 2) {
                push(&mut cons, SExp::Var(2), Cmp::Le, SExp::Num(Dec::int(rng.range(1, 9))));
            }
            "large-magnitude-tight-row"
        }
        8 => {
            // one variable occurring several times in a row (both sides, or repeatedly on one
            // side): ordinary coefficients, nearly cancelling huge ones, or decimals that
            // cancel exactly but not in floating point
            let x = 0usize;
            let y = 1usize;
            vars[x].dom = Dom::Real {
                lo: Some(-(rng.range(2, 12) as f64)),
                hi: Some(rng.range(2, 12) as f64),
            };
            let (c1, c2) = match rng.below(3) {
                0 => (Dec::int(rng.range(2, 5)), Dec::int(rng.range(1, 4))),
                1 => {
                    let c = *rng.pick(&[2_000_000_000i64, 1_000_000_000, 500_000_000]);
                    (Dec::int(c), Dec::int(c - rng.range(1, 3)))
                }
                _ => (Dec { n: 3, d: 2 }, Dec { n: 1, d: 2 }),
            };
            let k = SExp::Num(Dec::int(rng.range(-3, 6)));
            let t1 = SExp::MulL(c1, Box::new(SExp::Var(x)));
            let t2 = SExp::MulL(c2, Box::new(SExp::Var(x)));
            // (A third variant, 0.1x + 0.2x - 0.3x, cancels exactly in decimal arithmetic but
            // leaves a coefficient of 5.5e-17 in f64: whether x then "occurs" in the row is a
            // question of reading, i.e. a tolerance-edge input that decides nothing. Not
            // generated; see DESIGN.md section 9.)
            match rng.below(2) {
                // y + c1 x <= c2 x + k
                0 => push(
                    &mut cons,
                    SExp::Add(Box::new(SExp::Var(y)), Box::new(t1)),
                    cmp3(rng),
                    SExp::Add(Box::new(t2), Box::new(k)),
                ),
                // y + c1 x - c2 x <= k
                _ => push(
                    &mut cons,
                    SExp::Sub(
                        Box::new(SExp::Add(Box::new(SExp::Var(y)), Box::new(t1))),
                        Box::new(t2),
                    ),
                    cmp3(rng),
                    k,
                ),
            }
            if rng.chance(1, 2) {
                let l2 = affine(rng, n, false, 2);
                push(&mut cons, l2, cmp3(rng), rhs_const(rng, false));
            }
            "repeated-variable"
        }
        7 => {
            // extreme coefficient magnitudes (1e-12 .. 1e10) on otherwise ordinary rows
            let c = *rng.pick(&[
                Dec { n: 1, d: 10_000_000_000 },
                Dec { n: 5, d: 10_000_000_000 },
                Dec { n: 1, d: 1_000_000_000_000 },
                Dec { n: 2_000_000_000, d: 1 },
                Dec { n: 10_000_000_000, d: 1 },
            ]);
            vars[0].dom = rng
                .pick(&[
                    Dom::Real { lo: Some(0.0), hi: Some(1e12) },
                    Dom::NonNeg { lo: 0.0, hi: None },
                    Dom::Real { lo: Some(-1e6), hi: Some(1e6) },
                ])
                .clone();
            // the scaled variable: ordinary range, or (for a tiny coefficient) a range wide
            // enough for the tiny term to matter, as in a unit-conversion row
            vars[1].dom = if c.d > 1 && rng.chance(1, 2) {
                Dom::Real {
                    lo: Some(0.0),
                    hi: Some(2e12),
                }
            } else {
                rng.pick(&[
                    Dom::Real { lo: Some(-1000.0), hi: Some(1000.0) },
                    Dom::Real { lo: None, hi: None },
                    Dom::NonNeg { lo: 0.0, hi: Some(500.0) },
                ])
                .clone()
            };
            if matches!(vars[1].dom, Dom::Real { hi: Some(h), .. } if h > 1e9) {
                vars[0].dom = Dom::Real { lo: None, hi: None };
            }
            let scaled = match rng.below(3) {
                0 => SExp::MulL(c, Box::new(SExp::Var(1))),
                1 => SExp::MulR(Box::new(SExp::Var(1)), c),
                _ => SExp::Div(Box::new(SExp::Var(1)), Dec { n: c.d, d: c.n.max(1) }),
            };
            match rng.below(5) {
                0 => push(&mut cons, scaled, cmp3(rng), SExp::Var(0)),
                1 => push(
                    &mut cons,
                    SExp::Add(Box::new(scaled), Box::new(SExp::Var(0))),
                    cmp3(rng),
                    rhs_const(rng, false),
                ),
                // the extreme term as the SECOND operand, or on the right-hand side
                2 => push(
                    &mut cons,
                    SExp::Add(Box::new(SExp::Var(0)), Box::new(scaled)),
                    cmp3(rng),
                    rhs_const(rng, false),
                ),
                3 => {
                    let base = if n > 2 { SExp::Var(2) } else { rhs_const(rng, false) };
                    push(
                        &mut cons,
                        SExp::Var(0),
                        cmp3(rng),
                        SExp::Add(Box::new(base), Box::new(scaled)),
                    )
                }
                _ => push(
                    &mut cons,
                    SExp::Var(0),
                    Cmp::Ge,
                    SExp::Max(vec![scaled, SExp::Num(Dec::int(1))]),
                ),
            }
            if rng.chance(1, 2) {
                let l2 = affine(rng, n, false, 2);
                push(&mut cons, l2, cmp3(rng), rhs_const(rng, false));
            }
            "extreme-coefficient"
        }
        6 => {
            // an integer variable whose propagated bound is EXACTLY an integer t (often 0)
            // but is computed from decimal coefficients whose float sums leave a residue of
            // a few ulps on either side of it:  x + sum d_i p_i >= t + sum d_i,  0 <= p_i <= 1
            let t = *rng.pick(&[0i64, 0, 0, 1, -1, 2]);
            vars[0].dom = Dom::Int {
                lo: (t - rng.range(1, 5)) as i32,
                hi: (t + rng.range(1, 5)) as i32,
            };
            let k = n - 1;
            let mut total = 0i64; // in tenths
            let mut lhs = SExp::Var(0);
            let upper_side = rng.chance(1, 2);
            for i in 1..=k {
                vars[i].dom = if rng.chance(2, 3) {
                    Dom::Bool
                } else {
                    Dom::Real {
                        lo: Some(0.0),
                        hi: Some(1.0),
                    }
                };
                let tenths = *rng.pick(&[1i64, 2, 2, 3, 5, 6, 7, 9]);
                total += tenths;
                let c = Dec {
                    n: if upper_side { -tenths } else { tenths },
                    d: 10,
                };
                lhs = SExp::Add(Box::new(lhs), Box::new(SExp::MulL(c, Box::new(SExp::Var(i)))));
            }
            let rhs = SExp::Num(Dec {
                n: if upper_side { t * 10 - total } else { t * 10 + total },
                d: 10,
            });
            push(&mut cons, lhs, if upper_side { Cmp::Le } else { Cmp::Ge }, rhs);
            if rng.chance(1, 3) {
                let l2 = affine(rng, n, true, 2);
                push(&mut cons, l2, cmp3(rng), rhs_const(rng, true));
            }
            "integer-bound-with-float-residue"
        }
        _ => {
            // integer rounding with inexact coefficients: c*x <= c*k
            let c = *rng.pick(&[
                Dec { n: 19, d: 10 },
                Dec { n: 1, d: 10 },
                Dec { n: 3, d: 10 },
                Dec { n: 7, d: 10 },
                Dec { n: 11, d: 10 },
            ]);
            vars[0].dom = Dom::Int {
                lo: rng.range(-3, 0) as i32,
                hi: rng.range(4, 9) as i32,
            };
            let k = rng.range(1, 5);
            let term = SExp::MulL(c, Box::new(SExp::Var(0)));
            let bound = SExp::Num(Dec { n: c.n * k, d: c.d });
            let le = rng.chance(1, 2);
            let mut label = "integer-rounding";
            if rng.chance(1, 2) {
                // the same bound reached through the reverse rule of a piecewise operator
                // (abs: upper side; max: upper side; min: lower side) instead of an affine row
                label = "integer-rounding-through-piecewise";
                let other = if n > 1 { SExp::Var(1) } else { SExp::Num(Dec::int(k)) };
                if le {
                    let lhs = if rng.chance(1, 2) {
                        SExp::Abs(Box::new(term))
                    } else if rng.chance(1, 2) {
                        SExp::Max(vec![term, other])
                    } else {
                        SExp::Max(vec![other, term])
                    };
                    push(&mut cons, lhs, Cmp::Le, bound);
                } else if rng.chance(1, 2) {
                    push(&mut cons, SExp::Min(vec![term, other]), Cmp::Ge, bound);
                } else {
                    // min{-c x, y} >= -c k  <=>  x <= k (and y >= -c k)
                    let neg = SExp::MulL(Dec { n: -c.n, d: c.d }, Box::new(SExp::Var(0)));
                    push(
                        &mut cons,
                        SExp::Min(vec![neg, other]),
                        Cmp::Ge,
                        SExp::Num(Dec { n: -c.n * k, d: c.d }),
                    );
                }
            } else {
                push(&mut cons, term, if le { Cmp::Le } else { Cmp::Ge }, bound);
            }
            for _ in 0..rng.usize(0, 2) {
                let l2 = affine(rng, n, true, 2);
                push(&mut cons, l2, cmp3(rng), rhs_const(rng, true));
            }
            label
        }
    };
    // a logic operator somewhere: half of the time another row pins one of the Booleans, so
    // that the operator's value is decided (or half-decided) by propagation
    let has_logic = cons.iter().any(|c| {
        let mut subs = Vec::new();
        c.lhs.subexpressions(&mut subs);
        c.rhs.subexpressions(&mut subs);
        subs.iter().any(|e| matches!(e, SExp::And(_) | SExp::Or(_) | SExp::Not(_) | SExp::Logic2(..)))
    });
    if has_logic && rng.chance(1, 2) {
        let bools: Vec<usize> = (0..n).filter(|i| matches!(vars[*i].dom, Dom::Bool)).collect();
        if !bools.is_empty() {
            let b = *rng.pick(&bools);
            if rng.chance(1, 2) {
                push(&mut cons, SExp::Var(b), Cmp::Ge, SExp::Num(Dec::int(1)));
            } else {
                push(&mut cons, SExp::Var(b), Cmp::Le, SExp::Num(Dec::int(0)));
            }
        }
    }
    (
        label.to_string(),
        SrcModel {
            vars,
            cons,
            witness: None,
        },
    )
}
