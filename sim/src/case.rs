//! A `Case` is one explicit, self-contained simulated execution: model, options, clock
//! schedule / driver schedule / step budget. `run_case` is the only way the harness ever
//! executes the system under test, so search, minimisation and replay are by construction
//! the same execution.

use crate::bounds_world::BoundsCase;
use crate::judge::{self, Finding};
use crate::model::GenModel;
use crate::oracle::{self, Verdict};
use crate::solvers::{self, Outcome, RunCfg, RunResult};
use crate::tableau_world::TableauCase;
use serde::{Deserialize, Serialize};
use std::cell::RefCell;
use std::collections::HashMap;

#[derive(Clone, Debug, PartialEq, Serialize, Deserialize)]
pub struct SolverCase {
    /// "C04", "C05" or "C15": which judge looks at the runs.
    pub prop: String,
    pub model: GenModel,
    pub runs: Vec<RunCfg>,
}

#[derive(Clone, Debug, PartialEq, Serialize, Deserialize)]
pub enum Case {
    Solver(SolverCase),
    Tableau(TableauCase),
    Bounds(BoundsCase),
}

#[derive(Clone, Debug, PartialEq, Serialize, Deserialize)]
pub struct Violation {
    pub prop: String,
    pub class: String,
    pub detail: String,
    /// Entry point (call site) the violation was observed at; empty when not applicable.
    #[serde(default)]
    pub entry: String,
    /// Exact verdict of the input, when the world has one; empty otherwise.
    #[serde(default)]
    pub truth: String,
}

impl Violation {
    /// The part of a violation that must survive minimisation and replay.
    pub fn key(&self) -> (String, String) {
        (self.prop.clone(), self.class.clone())
    }
}

thread_local! {
    static ORACLE_CACHE: RefCell<HashMap<String, Verdict>> = RefCell::new(HashMap::new());
}

/// Exact verdict of a model (memoised per thread; a pure function, so the cache cannot
/// change any result).
pub fn truth_of(m: &GenModel) -> Verdict {
    let key = serde_json::to_string(m).expect("model serialises");
    if let Some(v) = ORACLE_CACHE.with(|c| c.borrow().get(&key).copied()) {
        return v;
    }
    let v = oracle::decide(m).verdict;
    ORACLE_CACHE.with(|c| {
        let mut c = c.borrow_mut();
        if c.len() > 256 {
            c.clear();
        }
        c.insert(key, v);
    });
    v
}

/// The linear model a solver entry point is given: the model itself for the direct entry
/// points, the output of the builder's own `linearize()` for the builder entry points.
fn reference_model(m: &GenModel, builder: bool) -> Option<judge::RefModel> {
    use crate::model::Cmp;
    if !builder {
        return Some(judge::RefModel {
            names: m.vars.iter().map(|v| v.name.clone()).collect(),
            rows: m
                .rows
                .iter()
                .map(|r| (r.name.clone(), r.coefs.clone(), r.cmp, r.rhs))
                .collect(),
            aux: Vec::new(),
        });
    }
    let (b, _) = solvers::to_builder(m);
    let lm = std::panic::catch_unwind(std::panic::AssertUnwindSafe(|| b.linearize()))
        .ok()?
        .ok()?;
    let names = lm.variables().clone();
    let mut aux = Vec::new();
    for n in &names {
        if m.vars.iter().any(|v| &v.name == n) {
            continue;
        }
        let (lo, hi, integer) = match lm.domain().get(n).map(|d| d.get_type().clone()) {
            Some(rooc::VariableType::Boolean) => (0.0, 1.0, true),
            Some(rooc::VariableType::IntegerRange(lo, hi)) => (lo as f64, hi as f64, true),
            Some(rooc::VariableType::Real(lo, hi))
            | Some(rooc::VariableType::NonNegativeReal(lo, hi)) => (lo, hi, false),
            None => (f64::NEG_INFINITY, f64::INFINITY, false),
        };
        aux.push((n.clone(), lo, hi, integer));
    }
    let rows = lm
        .constraints()
        .iter()
        .map(|c| {
            let cmp = match c.constraint_type() {
                rooc::Comparison::LessOrEqual | rooc::Comparison::Less => Cmp::Le,
                rooc::Comparison::GreaterOrEqual | rooc::Comparison::Greater => Cmp::Ge,
                rooc::Comparison::Equal => Cmp::Eq,
            };
            (c.name(), c.coefficients().clone(), cmp, c.rhs())
        })
        .collect();
    Some(judge::RefModel { names, rows, aux })
}

pub struct SolverCaseRun {
    pub results: Vec<RunResult>,
    pub violations: Vec<Violation>,
}

pub fn run_solver_case(case: &SolverCase) -> SolverCaseRun {
    let m = &case.model;
    let truth = truth_of(m);
    let results: Vec<RunResult> = case.runs.iter().map(|cfg| solvers::run(m, cfg)).collect();
    let mut violations = Vec::new();
    let mut push = |i: usize, cfg: &RunCfg, fs: Vec<Finding>| {
        for f in fs {
            violations.push(Violation {
                prop: case.prop.clone(),
                class: f.class,
                detail: format!(
                    "run {i} [{} gap={:?} limit={:?} clock={:?}]: {}",
                    cfg.entry.name(),
                    cfg.gap,
                    cfg.limit,
                    cfg.sched,
                    f.detail
                ),
                entry: cfg.entry.name().to_string(),
                truth: truth.tag().to_string(),
            });
        }
    };
    let direct_ref = reference_model(m, false).unwrap();
    let mut builder_ref: Option<Option<judge::RefModel>> = None;
    for (i, (cfg, res)) in case.runs.iter().zip(&results).enumerate() {
        match case.prop.as_str() {
            "C04" => {
                let rows = if cfg.entry.is_builder() {
                    builder_ref
                        .get_or_insert_with(|| reference_model(m, true))
                        .clone()
                        .unwrap_or_default()
                } else {
                    direct_ref.clone()
                };
                push(i, cfg, judge::judge_c04(m, &rows, res));
            }
            "C05" => push(i, cfg, judge::judge_c05(m, truth, cfg, res)),
            "C15" => {
                let mut fs = judge::judge_c15(m, truth, cfg, res);
                // a crash that goes away when only the VALUE of a never-firing limit is
                // changed is caused by that value (e.g. a deadline that cannot be
                // represented): every setting of the limit is in the property's quantifier
                if let Outcome::Panic { msg } = &res.outcome {
                    if !judge::interrupted(res)
                        && cfg.gap.is_valid()
                        && cfg.limit != solvers::LimitSpec::Unset
                        && cfg.limit != solvers::LimitSpec::HUGE
                    {
                        let twin = RunCfg {
                            limit: solvers::LimitSpec::HUGE,
                            ..*cfg
                        };
                        let twin_res = solvers::run(m, &twin);
                        if !matches!(twin_res.outcome, Outcome::Panic { .. }) {
                            fs.push(judge::Finding {
                                class: "limit-value-panic".into(),
                                detail: format!(
                                    "limit {:?} never fired, yet the call panicked ({msg}); with a limit of 2^40 s the same call returns {}",
                                    cfg.limit,
                                    twin_res.outcome.tag()
                                ),
                            });
                        }
                    }
                }
                push(i, cfg, fs);
            }
            other => panic!("unknown solver-world property {other}"),
        }
    }
    // cross-run checks
    match case.prop.as_str() {
        "C04" => {
            // clock independence: an entry point that takes no limit must return the same
            // bits under every clock behaviour
            for i in 0..case.runs.len() {
                for j in (i + 1)..case.runs.len() {
                    let (a, b) = (&case.runs[i], &case.runs[j]);
                    if a.entry == b.entry
                        && a.gap == b.gap
                        && a.limit == solvers::LimitSpec::Unset
                        && b.limit == solvers::LimitSpec::Unset
                        && a.sched != b.sched
                        && results[i].outcome.fingerprint() != results[j].outcome.fingerprint()
                    {
                        violations.push(Violation {
                            prop: case.prop.clone(),
                            class: "clock-dependence".into(),
                            entry: a.entry.name().to_string(),
                            truth: truth.tag().to_string(),
                            detail: format!(
                                "{} takes no time limit but returned different results under clock {:?} ({}) and {:?} ({})",
                                a.entry.name(),
                                a.sched,
                                results[i].outcome.tag(),
                                b.sched,
                                results[j].outcome.tag()
                            ),
                        });
                    }
                }
            }
        }
        "C05" => {
            // all solvers that answer (uninterrupted, exact gap) agree with each other
            let answers: Vec<(usize, String, Option<f64>)> = case
                .runs
                .iter()
                .zip(&results)
                .enumerate()
                .filter(|(_, (cfg, res))| !judge::interrupted(res) && cfg.gap.allowed() == 0.0)
                .filter_map(|(i, (_, res))| match &res.outcome {
                    Outcome::Sol(s) if s.label == solvers::Label::Optimal => {
                        // compare on the model's own objective: the builder cannot carry the
                        // constant of a feasibility objective
                        let adjust = m.offset - m.offset_as_seen_by(case.runs[i].entry.is_builder());
                        Some((i, "Optimal".to_string(), Some(s.value + adjust)))
                    }
                    Outcome::Err {
                        kind: solvers::ErrKind::Infeasible,
                        ..
                    } => Some((i, "Infeasible".to_string(), None)),
                    Outcome::Err {
                        kind: solvers::ErrKind::Unbounded,
                        ..
                    } => Some((i, "Unbounded".to_string(), None)),
                    _ => None,
                })
                .collect();
            'outer: for a in 0..answers.len() {
                for b in (a + 1)..answers.len() {
                    let (ia, ta, va) = &answers[a];
                    let (ib, tb, vb) = &answers[b];
                    let differ = ta != tb
                        || match (va, vb) {
                            (Some(x), Some(y)) => {
                                (x - y).abs()
                                    > 2.0 * judge::TOL
                                        * (x - case.model.offset).abs().max((y - case.model.offset).abs()).max(case.model.value_scale())
                                        + 2e-9 * case.model.offset.abs()
                            }
                            _ => false,
                        };
                    if differ {
                        violations.push(Violation {
                            prop: case.prop.clone(),
                            class: "disagreement".into(),
                            entry: format!("{}+{}", case.runs[*ia].entry.name(), case.runs[*ib].entry.name()),
                            truth: truth.tag().to_string(),
                            detail: format!(
                                "{} answered {ta}{} but {} answered {tb}{}",
                                case.runs[*ia].entry.name(),
                                va.map(|v| format!(" {v}")).unwrap_or_default(),
                                case.runs[*ib].entry.name(),
                                vb.map(|v| format!(" {v}")).unwrap_or_default(),
                            ),
                        });
                        break 'outer;
                    }
                }
            }
        }
        _ => {}
    }
    SolverCaseRun {
        results,
        violations,
    }
}

/// Whether every run of the case is bounded by the simulated clock's read budget. The
/// no-limit microlp entry points never read the clock inside their loops, so they are only
/// safe on a model whose limit-taking twin terminates within the budget (same pivoting).
/// Search and replay only ever build safe cases; the minimiser checks its candidates.
pub fn hang_safe(case: &Case) -> bool {
    let Case::Solver(c) = case else {
        return true;
    };
    let mut need_direct = false;
    let mut need_builder = false;
    for r in &c.runs {
        if r.entry.microlp_backed() && !r.entry.takes_options() {
            if r.entry.is_builder() {
                need_builder = true;
            } else {
                need_direct = true;
            }
        }
    }
    let budget = crate::worlds::read_budget(&c.model);
    let probe = |entry| {
        let cfg = RunCfg {
            entry,
            gap: solvers::GapSpec::Unset,
            limit: solvers::LimitSpec::HUGE,
            sched: solvers::Sched::Frozen,
            budget,
        };
        !matches!(solvers::run(&c.model, &cfg).outcome, Outcome::NoProgress { .. })
    };
    (!need_direct || probe(solvers::Entry::MilpWith))
        && (!need_builder || probe(solvers::Entry::BuilderMicrolp))
}

pub fn run_case(case: &Case) -> Vec<Violation> {
    match case {
        Case::Solver(c) => run_solver_case(c).violations,
        Case::Tableau(c) => crate::tableau_world::run_tableau_case(c).violations,
        Case::Bounds(c) => crate::bounds_world::run_bounds_case(c).violations,
    }
}

#[derive(Clone, Debug, Serialize, Deserialize)]
pub struct ReplayFile {
    pub property: String,
    pub verif_seed: u64,
    pub run_index: u64,
    pub violation: Violation,
    /// Size of the case before minimisation (free-form, informational).
    pub original_size: String,
    pub case: Case,
}
