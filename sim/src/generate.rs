//! Seeded generator of small, exactly decidable linear / mixed-integer models (swarm
//! style: every model draws its own family, sizes, palettes and post-mutations).
//!
//! Numeric data is dyadic and small so that every vertex, ratio and reduced cost is a
//! rational with a small denominator: no non-zero quantity sits within the solvers'
//! tolerances of zero, which is what makes a 1e-6 comparison against the exact oracle sound.

use crate::model::*;
use crate::rng::Rng;

#[derive(Clone, Copy, Debug, PartialEq, Eq)]
pub enum Family {
    Knapsack,
    Covering,
    Assignment,
    GeneralInt,
    Mixed,
    Continuous,
    FreeFace,
    InfeasibleLp,
    IntInfeasible,
    UnboundedIntFeasible,
    RelaxUnboundedIntInfeasible,
    EqualityDense,
    Degenerate,
    UnusedVar,
    PrimalDualInfeasible,
    Trivial,
    Stalling,
}

pub const ALL_FAMILIES: [Family; 17] = [
    Family::Knapsack,
    Family::Covering,
    Family::Assignment,
    Family::GeneralInt,
    Family::Mixed,
    Family::Continuous,
    Family::FreeFace,
    Family::InfeasibleLp,
    Family::IntInfeasible,
    Family::UnboundedIntFeasible,
    Family::RelaxUnboundedIntInfeasible,
    Family::EqualityDense,
    Family::Degenerate,
    Family::UnusedVar,
    Family::PrimalDualInfeasible,
    Family::Trivial,
    Family::Stalling,
];

impl Family {
    pub fn name(&self) -> &'static str {
        match self {
            Family::Knapsack => "knapsack",
            Family::Covering => "covering",
            Family::Assignment => "assignment",
            Family::GeneralInt => "general-int",
            Family::Mixed => "mixed",
            Family::Continuous => "continuous",
            Family::FreeFace => "free-face",
            Family::InfeasibleLp => "infeasible-lp",
            Family::IntInfeasible => "int-infeasible",
            Family::UnboundedIntFeasible => "unbounded-int-feasible",
            Family::RelaxUnboundedIntInfeasible => "relax-unbounded-int-infeasible",
            Family::EqualityDense => "equality-dense",
            Family::Degenerate => "degenerate",
            Family::UnusedVar => "unused-var",
            Family::PrimalDualInfeasible => "primal-dual-infeasible",
            Family::Trivial => "trivial",
            Family::Stalling => "stalling",
        }
    }
}

/// What the caller wants from the generator.
#[derive(Clone, Copy, Debug)]
pub struct GenLimits {
    /// Only continuous variables (for LP-only entry points and the tableau).
    pub continuous_only: bool,
    /// Upper bound on the number of integer points (product of integer range sizes).
    pub max_int_points: u64,
    /// Upper bound on continuous variables.
    pub max_cont: usize,
    /// Upper bound on rows.
    pub max_rows: usize,
    /// Allow `Satisfy` objectives.
    pub allow_satisfy: bool,
    /// Use only integer coefficients (tableau world: keeps exact pivots far from 1e-5).
    pub integer_data: bool,
}

fn coef(rng: &mut Rng, lim: &GenLimits) -> f64 {
    // mostly small integers, a few halves
    let v = match rng.weighted(&[10, 50, 25, 15]) {
        0 => 0.0,
        1 => rng.range(1, 3) as f64,
        2 => rng.range(1, 6) as f64,
        _ => {
            if lim.integer_data {
                rng.range(1, 4) as f64
            } else {
                rng.range(1, 11) as f64 / 2.0
            }
        }
    };
    if rng.chance(2, 5) {
        -v
    } else {
        v
    }
}

fn nz_coef(rng: &mut Rng, lim: &GenLimits) -> f64 {
    loop {
        let c = coef(rng, lim);
        if c != 0.0 {
            return c;
        }
    }
}

fn dyadic(rng: &mut Rng, lo: i64, hi: i64, lim: &GenLimits) -> f64 {
    // value in [lo, hi], integer or half
    if lim.integer_data || rng.chance(3, 4) || lo == hi {
        rng.range(lo, hi) as f64
    } else {
        let v = rng.range(lo * 2, hi * 2) as f64 / 2.0;
        v.clamp(lo as f64, hi as f64)
    }
}

fn cont_dom(rng: &mut Rng, lim: &GenLimits) -> Dom {
    match rng.weighted(&[30, 15, 8, 12, 15, 10, 10]) {
        0 => Dom::NonNeg { lo: 0.0, hi: None },
        1 => Dom::NonNeg {
            lo: 0.0,
            hi: Some(dyadic(rng, 1, 8, lim)),
        },
        2 => {
            let lo = dyadic(rng, 1, 3, lim);
            Dom::NonNeg {
                lo,
                hi: Some(lo + dyadic(rng, 0, 6, lim)),
            }
        }
        3 => Dom::Real { lo: None, hi: None },
        4 => {
            let lo = dyadic(rng, -6, 2, lim);
            Dom::Real {
                lo: Some(lo),
                hi: Some(lo + dyadic(rng, 0, 8, lim)),
            }
        }
        5 => Dom::Real {
            lo: Some(dyadic(rng, -6, 3, lim)),
            hi: None,
        },
        _ => Dom::Real {
            lo: None,
            hi: Some(dyadic(rng, -3, 6, lim)),
        },
    }
}

fn int_dom(rng: &mut Rng, max_size: i64) -> Dom {
    if rng.chance(2, 5) {
        Dom::Bool
    } else {
        let lo = rng.range(-4, 2) as i32;
        let size = rng.range(2, max_size.max(2)) as i32;
        Dom::Int {
            lo,
            hi: lo + size - 1,
        }
    }
}

/// A point inside the domain (used to plant feasible rows).
fn point_in(rng: &mut Rng, d: &Dom, lim: &GenLimits) -> f64 {
    match d {
        Dom::Bool => rng.range(0, 1) as f64,
        Dom::Int { lo, hi } => rng.range(*lo as i64, *hi as i64) as f64,
        _ => {
            let (lo, hi) = d.bounds_f64();
            let lo_i = if lo.is_finite() { lo.ceil() as i64 } else { -4 };
            let hi_i = if hi.is_finite() { hi.floor() as i64 } else { lo_i.max(0) + 6 };
            if lo_i > hi_i {
                return lo; // tiny interval: take its lower end
            }
            let v = dyadic(rng, lo_i, hi_i, lim);
            v.clamp(lo, hi)
        }
    }
}

fn var_names(rng: &mut Rng, n: usize) -> Vec<String> {
    let style = rng.below(5);
    if style == 4 && n <= 12 {
        // the names a compiled model really carries: the linearizer's own auxiliaries
        // (`$abs_0`, `$max_1_select_0`, ...) next to ordinary ones. They share their first
        // characters with the standardizer's internal columns (`$a_`, `$su_`, `$sl_`,
        // `$p..`, `$m..`) without being any of them.
        let mut pool = vec![
            "$abs_0", "$abs_0_positive", "$min_0", "$max_1", "$max_1_select_0", "$and_0",
            "$or_0", "$xor_0", "$iff_0", "$implies_0", "$logic_witness_0", "x", "y", "s", "a",
        ];
        rng.shuffle(&mut pool);
        return pool[..n].iter().map(|s| s.to_string()).collect();
    }
    if style == 4 {
        return (0..n).map(|i| format!("x{i}")).collect();
    }
    if style == 3 && n <= 10 {
        // names that are prefixes / suffixes of one another, in a seeded order
        let mut pool = vec![
            "dx", "x", "ax", "y", "my", "py", "z", "oz", "x_0", "max_0",
        ];
        rng.shuffle(&mut pool);
        return pool[..n].iter().map(|s| s.to_string()).collect();
    }
    (0..n)
        .map(|i| match style {
            0 => format!("x{i}"),
            1 => format!("v_{i}"),
            _ => ["a", "b", "c", "d", "e", "f", "g", "h", "k", "m", "p", "q", "r", "s", "t", "u"]
                [i % 16]
                .to_string()
                + &(if i >= 16 { format!("{}", i / 16) } else { String::new() }),
        })
        .collect()
}

fn planted_row(rng: &mut Rng, coefs: Vec<f64>, star: &[f64], cmp: Cmp, lim: &GenLimits) -> Row {
    let act: f64 = coefs.iter().zip(star).map(|(c, x)| c * x).sum();
    let slack = if rng.chance(1, 3) {
        0.0
    } else {
        dyadic(rng, 0, 5, lim)
    };
    let rhs = match cmp {
        Cmp::Le => act + slack,
        Cmp::Ge => act - slack,
        Cmp::Eq => act,
    };
    Row {
        name: String::new(),
        coefs,
        cmp,
        rhs,
    }
}

fn random_cmp(rng: &mut Rng) -> Cmp {
    match rng.weighted(&[45, 35, 20]) {
        0 => Cmp::Le,
        1 => Cmp::Ge,
        _ => Cmp::Eq,
    }
}

fn random_rows(
    rng: &mut Rng,
    vars: &[Var],
    m: usize,
    planted_pct: u64,
    lim: &GenLimits,
) -> Vec<Row> {
    let n = vars.len();
    let star: Vec<f64> = vars.iter().map(|v| point_in(rng, &v.dom, lim)).collect();
    let density = rng.range(40, 100) as u64;
    (0..m)
        .map(|_| {
            let mut coefs: Vec<f64> = (0..n)
                .map(|_| {
                    if rng.chance(density, 100) {
                        coef(rng, lim)
                    } else {
                        0.0
                    }
                })
                .collect();
            if coefs.iter().all(|c| *c == 0.0) && n > 0 {
                let j = rng.usize(0, n - 1);
                coefs[j] = nz_coef(rng, lim);
            }
            let cmp = random_cmp(rng);
            if rng.chance(planted_pct, 100) {
                planted_row(rng, coefs, &star, cmp, lim)
            } else {
                Row {
                    name: String::new(),
                    coefs,
                    cmp,
                    rhs: dyadic(rng, -10, 14, lim),
                }
            }
        })
        .collect()
}

fn random_obj(rng: &mut Rng, n: usize, lim: &GenLimits) -> Vec<f64> {
    (0..n).map(|_| coef(rng, lim)).collect()
}

fn mk_vars(names: Vec<String>, doms: Vec<Dom>) -> Vec<Var> {
    names
        .into_iter()
        .zip(doms)
        .map(|(name, dom)| Var { name, dom })
        .collect()
}

fn sense(rng: &mut Rng) -> Sense {
    if rng.chance(1, 2) {
        Sense::Max
    } else {
        Sense::Min
    }
}

fn cap_int_points(doms: &mut Vec<Dom>, cap: u64) {
    loop {
        let total: u64 = doms
            .iter()
            .filter_map(|d| d.int_range())
            .map(|(lo, hi)| (hi - lo + 1) as u64)
            .fold(1, |a, b| a.saturating_mul(b));
        if total <= cap {
            return;
        }
        // shrink the widest integer range, or turn it boolean, or drop to a fixed value
        let (idx, _) = doms
            .iter()
            .enumerate()
            .filter_map(|(i, d)| d.int_range().map(|(lo, hi)| (i, hi - lo + 1)))
            .max_by_key(|(_, s)| *s)
            .unwrap();
        doms[idx] = match &doms[idx] {
            Dom::Int { lo, hi } if hi - lo >= 2 => Dom::Int {
                lo: *lo,
                hi: lo + (hi - lo) / 2,
            },
            Dom::Int { lo, .. } => Dom::Int { lo: *lo, hi: *lo },
            _ => Dom::Int { lo: 0, hi: 0 },
        };
    }
}

pub fn gen_family(rng: &mut Rng, fam: Family, lim: &GenLimits) -> GenModel {
    let mut m = match fam {
        Family::Knapsack => {
            let nmax = (63 - lim.max_int_points.leading_zeros() as usize).clamp(2, 12);
            let n = rng.usize(3.min(nmax), nmax);
            let values: Vec<f64> = (0..n).map(|_| rng.range(1, 15) as f64).collect();
            let nrows = if rng.chance(1, 4) { 2 } else { 1 };
            let mut rows = Vec::new();
            for _ in 0..nrows {
                let w: Vec<f64> = (0..n).map(|_| rng.range(1, 12) as f64).collect();
                let total: f64 = w.iter().sum();
                let mut cap = (total * rng.range(25, 70) as f64 / 100.0).floor();
                if !lim.integer_data && rng.chance(1, 3) {
                    cap += 0.5;
                }
                rows.push(Row {
                    name: String::new(),
                    coefs: w,
                    cmp: Cmp::Le,
                    rhs: cap,
                });
            }
            GenModel {
                vars: mk_vars(var_names(rng, n), vec![Dom::Bool; n]),
                rows,
                obj: values,
                offset: 0.0,
                sense: Sense::Max,
                decor: Vec::new(),
            }
        }
        Family::Covering => {
            let nmax = (63 - lim.max_int_points.leading_zeros() as usize).clamp(2, 10);
            let n = rng.usize(3.min(nmax), nmax);
            let mrows = rng.usize(2, lim.max_rows.clamp(2, 5));
            let rows = (0..mrows)
                .map(|_| {
                    let mut coefs = vec![0.0; n];
                    for _ in 0..rng.usize(2, 4.min(n)) {
                        coefs[rng.usize(0, n - 1)] = 1.0;
                    }
                    Row {
                        name: String::new(),
                        coefs,
                        cmp: Cmp::Ge,
                        rhs: 1.0,
                    }
                })
                .collect();
            GenModel {
                vars: mk_vars(var_names(rng, n), vec![Dom::Bool; n]),
                rows,
                obj: (0..n).map(|_| rng.range(1, 9) as f64).collect(),
                offset: 0.0,
                sense: Sense::Min,
                decor: Vec::new(),
            }
        }
        Family::Assignment => {
            let k = if lim.max_int_points >= 512 && rng.chance(1, 2) {
                3
            } else {
                2
            };
            let n = k * k;
            let mut rows = Vec::new();
            let col_cmp = if rng.chance(1, 2) { Cmp::Eq } else { Cmp::Le };
            for i in 0..k {
                let mut r = vec![0.0; n];
                let mut c = vec![0.0; n];
                for j in 0..k {
                    r[i * k + j] = 1.0;
                    c[j * k + i] = 1.0;
                }
                rows.push(Row {
                    name: String::new(),
                    coefs: r,
                    cmp: Cmp::Eq,
                    rhs: 1.0,
                });
                rows.push(Row {
                    name: String::new(),
                    coefs: c,
                    cmp: col_cmp,
                    rhs: 1.0,
                });
            }
            rows.truncate(lim.max_rows.max(2));
            GenModel {
                vars: mk_vars(var_names(rng, n), vec![Dom::Bool; n]),
                rows,
                obj: (0..n).map(|_| rng.range(1, 9) as f64).collect(),
                offset: 0.0,
                sense: sense(rng),
                decor: Vec::new(),
            }
        }
        Family::GeneralInt => {
            let n = rng.usize(2, 4);
            let mut doms: Vec<Dom> = (0..n).map(|_| int_dom(rng, 8)).collect();
            cap_int_points(&mut doms, lim.max_int_points);
            let vars = mk_vars(var_names(rng, n), doms);
            let mrows = rng.usize(1, lim.max_rows.min(4));
            let rows = random_rows(rng, &vars, mrows, 70, lim);
            GenModel {
                obj: random_obj(rng, n, lim),
                vars,
                rows,
                offset: 0.0,
                sense: sense(rng),
                decor: Vec::new(),
            }
        }
        Family::Mixed => {
            let ni = rng.usize(1, 3);
            let nc = rng.usize(1, lim.max_cont.clamp(1, 3));
            let mut doms: Vec<Dom> = (0..ni).map(|_| int_dom(rng, 6)).collect();
            doms.extend((0..nc).map(|_| cont_dom(rng, lim)));
            rng.shuffle(&mut doms);
            cap_int_points(&mut doms, lim.max_int_points);
            let vars = mk_vars(var_names(rng, ni + nc), doms);
            let mrows = rng.usize(1, lim.max_rows.min(5));
            let rows = random_rows(rng, &vars, mrows, 75, lim);
            GenModel {
                obj: random_obj(rng, ni + nc, lim),
                vars,
                rows,
                offset: 0.0,
                sense: sense(rng),
                decor: Vec::new(),
            }
        }
        Family::Continuous => {
            let n = rng.usize(1, lim.max_cont.max(1));
            let doms: Vec<Dom> = (0..n).map(|_| cont_dom(rng, lim)).collect();
            let vars = mk_vars(var_names(rng, n), doms);
            let mrows = rng.usize(1, lim.max_rows.min(5));
            let rows = random_rows(rng, &vars, mrows, 70, lim);
            GenModel {
                obj: random_obj(rng, n, lim),
                vars,
                rows,
                offset: 0.0,
                sense: sense(rng),
                decor: Vec::new(),
            }
        }
        Family::FreeFace => {
            // objective parallel to an equality/inequality row over (partly) free variables:
            // the optimal face is unbounded
            let n = rng.usize(2, lim.max_cont.clamp(2, 3));
            let doms: Vec<Dom> = (0..n)
                .map(|_| {
                    if rng.chance(2, 3) {
                        Dom::Real { lo: None, hi: None }
                    } else {
                        cont_dom(rng, lim)
                    }
                })
                .collect();
            let vars = mk_vars(var_names(rng, n), doms);
            let base: Vec<f64> = (0..n).map(|_| nz_coef(rng, lim)).collect();
            let scale = rng.range(1, 3) as f64;
            let minimize = rng.chance(1, 2);
            let cmp = match rng.below(3) {
                0 => Cmp::Eq,
                _ => {
                    if minimize {
                        Cmp::Ge
                    } else {
                        Cmp::Le
                    }
                }
            };
            let mut rows = vec![Row {
                name: String::new(),
                coefs: base.clone(),
                cmp,
                rhs: dyadic(rng, -6, 8, lim),
            }];
            if rng.chance(1, 3) && lim.max_rows > 1 {
                rows.extend(random_rows(rng, &vars, 1, 100, lim));
            }
            GenModel {
                obj: base.iter().map(|c| c * scale).collect(),
                vars,
                rows,
                offset: 0.0,
                sense: if minimize { Sense::Min } else { Sense::Max },
                decor: Vec::new(),
            }
        }
        Family::InfeasibleLp => {
            let mut m = if lim.continuous_only || rng.chance(1, 2) {
                gen_family(rng, Family::Continuous, lim)
            } else {
                gen_family(rng, Family::Mixed, lim)
            };
            let n = m.n();
            let a: Vec<f64> = (0..n).map(|_| coef(rng, lim)).collect();
            let a = if a.iter().all(|c| *c == 0.0) {
                let mut a = a;
                a[0] = 1.0;
                a
            } else {
                a
            };
            let b = dyadic(rng, -4, 6, lim);
            m.rows.truncate(lim.max_rows.saturating_sub(2));
            m.rows.push(Row {
                name: String::new(),
                coefs: a.clone(),
                cmp: Cmp::Ge,
                rhs: b + rng.range(1, 3) as f64,
            });
            m.rows.push(Row {
                name: String::new(),
                coefs: a,
                cmp: Cmp::Le,
                rhs: b,
            });
            let mut rows = std::mem::take(&mut m.rows);
            rng.shuffle(&mut rows);
            m.rows = rows;
            m
        }
        Family::IntInfeasible => {
            // parity: 2x + 2y (+ 2z) = odd, or x + y = k + 1/2
            let n = rng.usize(2, 3);
            let mut doms: Vec<Dom> = (0..n).map(|_| int_dom(rng, 6)).collect();
            cap_int_points(&mut doms, lim.max_int_points);
            let vars = mk_vars(var_names(rng, n), doms);
            let star: Vec<f64> = vars.iter().map(|v| point_in(rng, &v.dom, lim)).collect();
            let s: f64 = star.iter().sum();
            let row = if rng.chance(1, 2) {
                Row {
                    name: String::new(),
                    coefs: vec![2.0; n],
                    cmp: Cmp::Eq,
                    rhs: 2.0 * s + 1.0,
                }
            } else {
                Row {
                    name: String::new(),
                    coefs: vec![1.0; n],
                    cmp: Cmp::Eq,
                    rhs: s + 0.5,
                }
            };
            let mut rows = vec![row];
            if rng.chance(1, 2) && lim.max_rows > 1 {
                rows.extend(random_rows(rng, &vars, 1, 100, lim));
            }
            GenModel {
                obj: random_obj(rng, n, lim),
                vars,
                rows,
                offset: 0.0,
                sense: sense(rng),
                decor: Vec::new(),
            }
        }
        Family::UnboundedIntFeasible | Family::RelaxUnboundedIntInfeasible => {
            let ni = rng.usize(1, 2);
            let mut doms: Vec<Dom> = (0..ni).map(|_| int_dom(rng, 5)).collect();
            cap_int_points(&mut doms, lim.max_int_points);
            // one continuous variable that can run off to infinity in the good direction
            let up = rng.chance(1, 2);
            doms.push(if rng.chance(1, 2) {
                Dom::Real { lo: None, hi: None }
            } else if up {
                Dom::NonNeg { lo: 0.0, hi: None }
            } else {
                Dom::Real {
                    lo: None,
                    hi: Some(dyadic(rng, 0, 4, lim)),
                }
            });
            let n = doms.len();
            let vars = mk_vars(var_names(rng, n), doms);
            let mut rows = Vec::new();
            // an integer-only row
            let star: Vec<f64> = vars.iter().map(|v| point_in(rng, &v.dom, lim)).collect();
            let s: f64 = star[..ni].iter().sum();
            let mut c = vec![0.0; n];
            for j in 0..ni {
                c[j] = if fam == Family::RelaxUnboundedIntInfeasible {
                    2.0
                } else {
                    1.0
                };
            }
            rows.push(Row {
                name: String::new(),
                coefs: c,
                cmp: Cmp::Eq,
                rhs: if fam == Family::RelaxUnboundedIntInfeasible {
                    2.0 * s + 1.0
                } else {
                    s
                },
            });
            // a row that bounds the continuous variable on the *bad* side only
            let mut c2 = vec![0.0; n];
            c2[n - 1] = 1.0;
            c2[0] = coef(rng, lim);
            rows.push(Row {
                name: String::new(),
                coefs: c2,
                cmp: if up { Cmp::Ge } else { Cmp::Le },
                rhs: dyadic(rng, -3, 3, lim),
            });
            let mut obj = random_obj(rng, n, lim);
            let mag = rng.range(1, 4) as f64;
            let maximize = rng.chance(1, 2);
            obj[n - 1] = if up == maximize { mag } else { -mag };
            GenModel {
                obj,
                vars,
                rows,
                offset: 0.0,
                sense: if maximize { Sense::Max } else { Sense::Min },
                decor: Vec::new(),
            }
        }
        Family::EqualityDense => {
            let continuous = lim.continuous_only || rng.chance(1, 2);
            let n = rng.usize(2, 4);
            let mut doms: Vec<Dom> = (0..n)
                .map(|_| {
                    if continuous || rng.chance(1, 2) {
                        cont_dom(rng, lim)
                    } else {
                        int_dom(rng, 6)
                    }
                })
                .collect();
            if doms.iter().filter(|d| !d.is_integer()).count() > lim.max_cont {
                for d in doms.iter_mut().skip(lim.max_cont) {
                    if !d.is_integer() && !continuous {
                        *d = int_dom(rng, 4);
                    }
                }
            }
            cap_int_points(&mut doms, lim.max_int_points);
            let vars = mk_vars(var_names(rng, n), doms);
            let star: Vec<f64> = vars.iter().map(|v| point_in(rng, &v.dom, lim)).collect();
            let mrows = rng.usize(2, lim.max_rows.clamp(2, 4));
            let mut rows: Vec<Row> = (0..mrows)
                .map(|_| {
                    let coefs: Vec<f64> = (0..n).map(|_| coef(rng, lim)).collect();
                    planted_row(rng, coefs, &star, Cmp::Eq, lim)
                })
                .collect();
            // a dependent (redundant) equality: sum of two planted rows
            if rows.len() >= 2 && rows.len() < lim.max_rows && rng.chance(1, 2) {
                let coefs: Vec<f64> = (0..n).map(|j| rows[0].coefs[j] + rows[1].coefs[j]).collect();
                let rhs = rows[0].rhs + rows[1].rhs;
                rows.push(Row {
                    name: String::new(),
                    coefs,
                    cmp: Cmp::Eq,
                    rhs,
                });
            }
            GenModel {
                obj: random_obj(rng, n, lim),
                vars,
                rows,
                offset: 0.0,
                sense: sense(rng),
                decor: Vec::new(),
            }
        }
        Family::Degenerate => {
            // several rows tight at the same point, zero right-hand sides, duplicated ratios
            let n = rng.usize(2, lim.max_cont.clamp(2, 4));
            let doms: Vec<Dom> = (0..n)
                .map(|_| {
                    if rng.chance(3, 4) {
                        Dom::NonNeg { lo: 0.0, hi: None }
                    } else {
                        cont_dom(rng, lim)
                    }
                })
                .collect();
            let vars = mk_vars(var_names(rng, n), doms);
            let at_origin = rng.chance(1, 2);
            let star: Vec<f64> = vars
                .iter()
                .map(|v| {
                    if at_origin {
                        let (lo, hi) = v.dom.bounds_f64();
                        0.0f64.clamp(lo, hi)
                    } else {
                        point_in(rng, &v.dom, lim)
                    }
                })
                .collect();
            let mrows = rng.usize(2, lim.max_rows.clamp(2, 5));
            let rows: Vec<Row> = (0..mrows)
                .map(|_| {
                    let coefs: Vec<f64> = (0..n).map(|_| coef(rng, lim)).collect();
                    let act: f64 = coefs.iter().zip(&star).map(|(c, x)| c * x).sum();
                    let cmp = if rng.chance(1, 2) { Cmp::Le } else { Cmp::Ge };
                    Row {
                        name: String::new(),
                        coefs,
                        cmp,
                        rhs: act,
                    }
                })
                .collect();
            GenModel {
                obj: random_obj(rng, n, lim),
                vars,
                rows,
                offset: 0.0,
                sense: sense(rng),
                decor: Vec::new(),
            }
        }
        Family::UnusedVar => {
            let mut m = if lim.continuous_only || rng.chance(2, 3) {
                gen_family(rng, Family::Continuous, lim)
            } else {
                gen_family(rng, Family::Mixed, lim)
            };
            // add a variable that appears nowhere (zero column, zero cost)
            let dom = match rng.below(4) {
                0 => Dom::Real { lo: None, hi: None },
                1 => Dom::NonNeg { lo: 0.0, hi: None },
                2 => cont_dom(rng, lim),
                _ => {
                    if lim.continuous_only {
                        Dom::Real { lo: None, hi: None }
                    } else {
                        Dom::Bool
                    }
                }
            };
            if m.num_continuous() < lim.max_cont + 1 {
                let pos = rng.usize(0, m.n());
                m.vars.insert(
                    pos,
                    Var {
                        name: "unused".into(),
                        dom,
                    },
                );
                m.obj.insert(pos, 0.0);
                for r in &mut m.rows {
                    r.coefs.insert(pos, 0.0);
                }
            }
            m
        }
        Family::Stalling => {
            // a classical cycling LP (Beale, Marshall-Suurballe, Chvatal, Kuhn) stated with
            // inequality rows, its rows in a seeded order, plus a couple of upper-bound rows
            // of different tightness on one variable: a simplex stalls at the degenerate
            // origin for many pivots (long enough for an anti-cycling fallback to engage)
            // and must then still take a correct ratio test among distinct ratios
            let classics = crate::tableau_world::classic_cases();
            let (_, block) = &classics[rng.usize(0, classics.len() - 1)];
            let crate::tableau_world::TableauSource::Canonical { c, a, b, basis, .. } = block else {
                unreachable!()
            };
            let structural: Vec<usize> = (0..c.len()).filter(|j| !basis.contains(j)).collect();
            let n = structural.len();
            let mut rows: Vec<Row> = a
                .iter()
                .zip(b)
                .map(|(ai, bi)| Row {
                    name: String::new(),
                    coefs: structural.iter().map(|j| ai[*j]).collect(),
                    cmp: Cmp::Le,
                    rhs: *bi,
                })
                .collect();
            if rng.chance(1, 2) {
                rng.shuffle(&mut rows);
            }
            let j = rng.usize(0, n - 1);
            let mut caps: Vec<f64> = vec![rng.range(1, 4) as f64, rng.range(1, 4) as f64];
            caps.truncate(rng.usize(0, 2));
            for cap in caps {
                let mut coefs = vec![0.0; n];
                coefs[j] = 1.0;
                let pos = rng.usize(0, rows.len());
                rows.insert(pos, Row { name: String::new(), coefs, cmp: Cmp::Le, rhs: cap });
            }
            let flip = rng.chance(1, 2);
            GenModel {
                vars: mk_vars(var_names(rng, n), vec![Dom::NonNeg { lo: 0.0, hi: None }; n]),
                rows,
                obj: structural.iter().map(|j| if flip { -c[*j] } else { c[*j] }).collect(),
                offset: 0.0,
                sense: if flip { Sense::Max } else { Sense::Min },
                decor: Vec::new(),
            }
        }
        Family::Trivial => {
            // degenerate shapes: no variables at all, or variables but no rows
            if rng.chance(1, 2) {
                GenModel {
                    vars: vec![],
                    rows: vec![],
                    obj: vec![],
                    offset: 0.0,
                    sense: sense(rng),
                    decor: Vec::new(),
                }
            } else {
                let n = rng.usize(1, 2);
                let doms: Vec<Dom> = (0..n)
                    .map(|_| {
                        if lim.continuous_only || rng.chance(1, 2) {
                            cont_dom(rng, lim)
                        } else {
                            int_dom(rng, 4)
                        }
                    })
                    .collect();
                GenModel {
                    vars: mk_vars(var_names(rng, n), doms),
                    rows: vec![],
                    obj: random_obj(rng, n, lim),
                    offset: 0.0,
                    sense: sense(rng),
                    decor: Vec::new(),
                }
            }
        }
        Family::PrimalDualInfeasible => {
            // infeasible rows plus an objective direction that is unbounded in the relaxed cone
            let second_shape = lim.max_cont >= 3 && rng.chance(1, 2);
            let n = if second_shape {
                3
            } else {
                rng.usize(2, lim.max_cont.clamp(2, 3))
            };
            let doms: Vec<Dom> = (0..n)
                .map(|_| {
                    if rng.chance(1, 2) {
                        Dom::Real { lo: None, hi: None }
                    } else {
                        Dom::NonNeg { lo: 0.0, hi: None }
                    }
                })
                .collect();
            let mut vars = mk_vars(var_names(rng, n), doms);
            // second shape: two rows with the same left-hand side over the first two
            // variables and right-hand sides that exclude each other, and the objective on a
            // third column that occurs in no row and is unbounded in the improving
            // direction — the ray an interior-point iterate runs away along lies entirely
            // outside the contradicting rows
            if second_shape {
                if rng.chance(5, 6) {
                    for v in vars.iter_mut() {
                        v.dom = Dom::Real { lo: None, hi: None };
                    }
                }
                let mut a = vec![0.0; n];
                a[0] = *rng.pick(&[1.0, 1.0, 2.0, -1.0]);
                a[1] = *rng.pick(&[1.0, -1.0, 1.0, 3.0]);
                let b = dyadic(rng, -3, 3, lim);
                let d = *rng.pick(&[1.0, 2.0, 0.5, 4.0]);
                let (c0, c1, r0, r1) = match rng.below(6) {
                    0 | 3 | 4 | 5 => (Cmp::Eq, Cmp::Eq, b, b + d),
                    1 => (Cmp::Le, Cmp::Ge, b, b + d),
                    _ => (Cmp::Eq, Cmp::Ge, b, b + d),
                };
                let rows = vec![
                    Row {
                        name: String::new(),
                        coefs: a.clone(),
                        cmp: c0,
                        rhs: r0,
                    },
                    Row {
                        name: String::new(),
                        coefs: a,
                        cmp: c1,
                        rhs: r1,
                    },
                ];
                let mut obj = vec![0.0; n];
                obj[2] = *rng.pick(&[1.0, 2.0, 0.5, 5.0]);
                // a non-negative column is unbounded upwards only
                let sense = if vars[2].dom.is_free() && rng.chance(1, 2) {
                    Sense::Min
                } else {
                    Sense::Max
                };
                let mut m = GenModel {
                    obj,
                    vars,
                    rows,
                    offset: 0.0,
                    sense,
                    decor: Vec::new(),
                };
                post_mutate(rng, &mut m, lim);
                return m;
            }
            let mut a = vec![0.0; n];
            a[0] = 1.0;
            a[1] = -1.0;
            let b = dyadic(rng, -3, 3, lim);
            let rows = vec![
                Row {
                    name: String::new(),
                    coefs: a.clone(),
                    cmp: Cmp::Ge,
                    rhs: b + 1.0,
                },
                Row {
                    name: String::new(),
                    coefs: a,
                    cmp: Cmp::Le,
                    rhs: b,
                },
            ];
            let mut obj = vec![0.0; n];
            obj[0] = 1.0;
            obj[1] = 1.0;
            GenModel {
                obj,
                vars,
                rows,
                offset: 0.0,
                sense: Sense::Max,
                decor: Vec::new(),
            }
        }
    };
    post_mutate(rng, &mut m, lim);
    m
}

fn post_mutate(rng: &mut Rng, m: &mut GenModel, lim: &GenLimits) {
    let n = m.n();
    // decorations: piecewise-linear constraints implied by the variable ranges, stated
    // through the builder only, so that what the builder compiles and solves carries the
    // linearizer's auxiliary columns
    // (not next to variables that wear the linearizer's own names: those would collide)
    if rng.chance(1, 5) && !m.vars.iter().any(|v| v.name.starts_with('$')) {
        let bounded: Vec<usize> = (0..n)
            .filter(|i| {
                let (lo, hi) = m.vars[*i].dom.bounds_f64();
                lo.is_finite() && hi.is_finite()
            })
            .collect();
        if bounded.len() >= 2 {
            for _ in 0..rng.range(1, 2) {
                let i = bounded[rng.usize(0, bounded.len() - 1)];
                let j = bounded[rng.usize(0, bounded.len() - 1)];
                if i == j {
                    continue;
                }
                let (li, hi) = m.vars[i].dom.bounds_f64();
                let (lj, hj) = m.vars[j].dom.bounds_f64();
                let slack = rng.range(0, 2) as f64;
                let d = match rng.weighted(&[50, 25, 25]) {
                    0 => Decor::AbsLe { i, j, bound: (hi - lj).max(hj - li) + slack },
                    1 => Decor::MaxGe { i, j, bound: li.max(lj) - slack },
                    _ => Decor::MinLe { i, j, bound: hi.min(hj) + slack },
                };
                m.decor.push(d);
            }
        }
    }
    // duplicate a row
    if !m.rows.is_empty() && m.rows.len() < lim.max_rows && rng.chance(1, 10) {
        let r = m.rows[rng.usize(0, m.rows.len() - 1)].clone();
        let pos = rng.usize(0, m.rows.len());
        m.rows.insert(pos, r);
    }
    // empty row (always tried on a variable-free model: there it is the only kind of row)
    if m.rows.len() < lim.max_rows && (rng.chance(1, 12) || (n == 0 && rng.chance(2, 3))) {
        let (cmp, rhs) = match rng.below(5) {
            0 => (Cmp::Eq, 0.0),
            1 => (Cmp::Eq, 1.0),
            2 => (Cmp::Le, rng.range(-2, 3) as f64),
            3 => (Cmp::Ge, rng.range(-3, 2) as f64),
            _ => (Cmp::Le, 0.0),
        };
        let pos = rng.usize(0, m.rows.len());
        m.rows.insert(
            pos,
            Row {
                name: String::new(),
                coefs: vec![0.0; n],
                cmp,
                rhs,
            },
        );
    }
    // rescale a row, or the objective, by a power of two (same feasible set, same optimum up
    // to the factor; exact in f64): magnitudes from 1/8 up to 1024 times the palette
    if !lim.integer_data && !m.rows.is_empty() && rng.chance(1, 12) {
        let i = rng.usize(0, m.rows.len() - 1);
        let mut f = *rng.pick(&[0.125, 0.25, 4.0, 64.0, 1024.0]);
        // triage aid (never set by the registered commands): force one factor
        if let Some(forced) = std::env::var("VERIF_ROW_FACTOR").ok().and_then(|s| s.parse::<f64>().ok()) {
            f = forced;
        }
        for c in m.rows[i].coefs.iter_mut() {
            *c *= f;
        }
        m.rows[i].rhs *= f;
    }
    if !lim.integer_data && rng.chance(1, 20) {
        let f = *rng.pick(&[0.25, 8.0, 256.0]);
        for c in m.obj.iter_mut() {
            *c *= f;
        }
    }
    // objective variants
    match rng.below(20) {
        0 => m.obj = vec![0.0; n],
        1 if lim.allow_satisfy => {
            m.sense = Sense::Satisfy;
            m.obj = vec![0.0; n];
            // the text front end compiles `solve` to a constant objective: keep a constant
            // sometimes
            m.offset = if rng.chance(1, 2) {
                0.0
            } else {
                dyadic(rng, -4, 6, lim)
            };
        }
        2 => {
            m.sense = match m.sense {
                Sense::Min => Sense::Max,
                Sense::Max => Sense::Min,
                s => s,
            }
        }
        _ => {}
    }
    if m.sense != Sense::Satisfy && rng.chance(1, 4) {
        m.offset = dyadic(rng, -9, 9, lim);
        // sometimes a constant that dwarfs the variable part (a fixed cost, a baseline):
        // any tolerance that is relative to the objective value then spans whole units of
        // the part that is being optimised
        if !lim.integer_data && rng.chance(1, 4) {
            let big = *rng.pick(&[100_000.0, 1_000_000.0, 10_000_000.0]);
            m.offset = if rng.chance(1, 2) { big } else { -big } + m.offset.trunc();
        }
    }
    // row names: most rows named, some not
    let style = rng.below(3);
    for (i, r) in m.rows.iter_mut().enumerate() {
        if rng.chance(3, 4) {
            r.name = match style {
                0 => format!("r{i}"),
                1 => format!("c_{i}"),
                _ => format!("row{}", i + 1),
            };
        }
    }
    // helper rows: a name that starts with `__` is legal and is left out of the reported
    // row activities, wherever the row stands among the others
    if rng.chance(1, 6) {
        for (i, r) in m.rows.iter_mut().enumerate() {
            if !r.name.is_empty() && rng.chance(1, 3) {
                r.name = format!("__h{i}");
            }
        }
    }
}

/// Draws a family with the given weights (aligned with `ALL_FAMILIES`).
pub fn pick_family(rng: &mut Rng, weights: &[u64; 17]) -> Family {
    ALL_FAMILIES[rng.weighted(weights)]
}

pub fn gen_model(rng: &mut Rng, weights: &[u64; 17], lim: &GenLimits) -> (Family, GenModel) {
    for _ in 0..50 {
        let fam = pick_family(rng, weights);
        let m = gen_family(rng, fam, lim);
        if m.well_formed()
            && m.int_points() <= lim.max_int_points
            && m.num_continuous() <= lim.max_cont + 1
            && m.rows.len() <= lim.max_rows + 1
            && (!lim.continuous_only || m.is_continuous())
            && (lim.allow_satisfy || m.sense != Sense::Satisfy)
        {
            return (fam, m);
        }
    }
    panic!("generator could not produce a model within limits");
}

/// Planted subset-sum / market-split feasibility model: `n` Booleans, `rows` equality rows
/// with even weights; `planted` = the right-hand sides come from a 0/1 point (feasible),
/// otherwise an odd right-hand side makes it integer-infeasible with a feasible relaxation.
/// Needs a long branch & bound before the first integer-feasible point.
pub fn gen_subset_sum(rng: &mut Rng, n: usize, rows: usize, planted: bool) -> GenModel {
    let star: Vec<f64> = (0..n).map(|_| rng.range(0, 1) as f64).collect();
    let mut out_rows = Vec::new();
    for i in 0..rows {
        let hi = 1i64 << (n as i64 - 2).clamp(4, 40);
        let w: Vec<f64> = (0..n).map(|_| (2 * rng.range(hi / 8, hi)) as f64).collect();
        let act: f64 = w.iter().zip(&star).map(|(a, b)| a * b).sum();
        out_rows.push(Row {
            name: format!("split{i}"),
            coefs: w,
            cmp: Cmp::Eq,
            rhs: if planted { act } else { act + 1.0 },
        });
    }
    GenModel {
        vars: mk_vars((0..n).map(|i| format!("b{i}")).collect(), vec![Dom::Bool; n]),
        rows: out_rows,
        obj: vec![0.0; n],
        offset: 0.0,
        sense: Sense::Satisfy,
        decor: Vec::new(),
    }
}
