//! Oracles for the solver world: certificate checks on returned solutions (C04), verdict
//! and optimum checks against the exact reference (C05), and the limit / gap contract (C15).

use crate::model::{Cmp, GenModel};
use crate::oracle::Verdict;
use crate::solvers::{ErrKind, Label, Outcome, RunCfg, RunResult, Sol};

pub const TOL: f64 = 1e-6;

#[derive(Clone, Debug, PartialEq)]
pub struct Finding {
    pub class: String,
    pub detail: String,
}

fn f(class: &str, detail: String) -> Finding {
    Finding {
        class: class.to_string(),
        detail,
    }
}

/// The linear model an entry point actually solved, as far as the certificate checks need
/// it: for a direct entry point the `GenModel` itself, for a builder entry point what the
/// builder's own `linearize()` produced (auxiliary columns and rows included).
#[derive(Clone, Debug, Default)]
pub struct RefModel {
    /// Column names, in the compiled model's order.
    pub names: Vec<String>,
    /// (row name, coefficients by `names`, comparison, right-hand side)
    pub rows: Vec<(String, Vec<f64>, Cmp, f64)>,
    /// Bounds and integrality of the columns that are not variables of the `GenModel`.
    pub aux: Vec<(String, f64, f64, bool)>,
}

/// Which names beyond the `GenModel`'s own variables an assignment may (and must) carry.
pub enum Aux<'a> {
    None,
    /// Exactly these, once each.
    Exactly(&'a [(String, f64, f64, bool)]),
    /// Any `$`-prefixed name (the judge has no compiled model at hand).
    AnyGenerated,
}

pub struct Values {
    /// By `GenModel` variable order.
    pub x: Vec<f64>,
    pub aux: Vec<(String, f64)>,
}

impl Values {
    pub fn get(&self, m: &GenModel, name: &str) -> Option<f64> {
        m.vars
            .iter()
            .position(|v| v.name == name)
            .map(|i| self.x[i])
            .or_else(|| self.aux.iter().find(|(n, _)| n == name).map(|(_, v)| *v))
    }
}

/// Values by model variable order, plus findings about the shape of the assignment.
pub fn values_by_var(m: &GenModel, sol: &Sol, aux: Aux, out: &mut Vec<Finding>) -> Option<Values> {
    let mut vals: Vec<Option<f64>> = vec![None; m.n()];
    let mut aux_vals: Vec<(String, f64)> = Vec::new();
    let mut ok = true;
    for (name, v) in &sol.assignment {
        match m.vars.iter().position(|x| &x.name == name) {
            None => {
                let allowed = match &aux {
                    Aux::None => false,
                    Aux::Exactly(list) => list.iter().any(|(n, ..)| n == name),
                    Aux::AnyGenerated => name.starts_with('$'),
                };
                if !allowed {
                    out.push(f(
                        "assignment-names",
                        format!("solution assigns `{name}`, which is not a variable of the model"),
                    ));
                    ok = false;
                } else if aux_vals.iter().any(|(n, _)| n == name) {
                    out.push(f(
                        "assignment-names",
                        format!("variable `{name}` has more than one value"),
                    ));
                    ok = false;
                } else {
                    aux_vals.push((name.clone(), *v));
                }
            }
            Some(i) => {
                if vals[i].is_some() {
                    out.push(f(
                        "assignment-names",
                        format!("variable `{name}` has more than one value"),
                    ));
                    ok = false;
                } else {
                    vals[i] = Some(*v);
                }
            }
        }
    }
    for (i, v) in vals.iter().enumerate() {
        if v.is_none() {
            out.push(f(
                "assignment-names",
                format!("variable `{}` has no value", m.vars[i].name),
            ));
            ok = false;
        }
    }
    if let Aux::Exactly(list) = &aux {
        for (n, ..) in list.iter() {
            if !aux_vals.iter().any(|(k, _)| k == n) {
                out.push(f(
                    "assignment-names",
                    format!("variable `{n}` of the compiled model has no value"),
                ));
                ok = false;
            }
        }
    }
    if !ok {
        return None;
    }
    Some(Values {
        x: vals.into_iter().map(|v| v.unwrap()).collect(),
        aux: aux_vals,
    })
}

/// (i) rows, bounds, integrality; (ii) reported objective; handles.
pub fn check_point(m: &GenModel, sol: &Sol, x: &[f64], out: &mut Vec<Finding>) {
    for (i, v) in m.vars.iter().enumerate() {
        let xi = x[i];
        if !xi.is_finite() {
            out.push(f(
                "non-finite-value",
                format!("{} = {xi}", v.name),
            ));
            continue;
        }
        let (lo, hi) = v.dom.bounds_f64();
        if xi < lo - TOL * lo.abs().max(1.0) || xi > hi + TOL * hi.abs().max(1.0) {
            out.push(f(
                "bound-violated",
                format!("{} = {xi} outside [{lo}, {hi}]", v.name),
            ));
        }
        if v.dom.is_integer() && (xi - xi.round()).abs() > TOL {
            out.push(f(
                "integrality-violated",
                format!("{} = {xi} is not integral", v.name),
            ));
        }
    }
    for (ri, r) in m.rows.iter().enumerate() {
        let act = m.row_activity(ri, x);
        let scale = r
            .coefs
            .iter()
            .zip(x)
            .map(|(c, v)| (c * v).abs())
            .fold(r.rhs.abs().max(1.0), f64::max);
        let viol = match r.cmp {
            Cmp::Le => act - r.rhs,
            Cmp::Ge => r.rhs - act,
            Cmp::Eq => (act - r.rhs).abs(),
        };
        if !(viol <= TOL * scale) {
            out.push(f(
                "row-violated",
                format!(
                    "row {ri} `{}`: activity {act} vs {:?} {} (violation {viol:e})",
                    r.name, r.cmp, r.rhs
                ),
            ));
        }
    }
    let builder = sol.handle_values.is_some();
    let obj = m.objective_at(x) - m.offset + m.offset_as_seen_by(builder);
    let off = m.offset_as_seen_by(builder);
    if !((sol.value - obj).abs() <= TOL * (obj - off).abs().max(m.value_scale()) + 1e-9 * off.abs()) {
        out.push(f(
            "objective-mismatch",
            format!(
                "reported value {} but the objective at the returned values is {obj}",
                sol.value
            ),
        ));
    }
    for ((name, v), looked_up) in sol.assignment.iter().zip(&sol.lookups) {
        match looked_up {
            None => out.push(f(
                "lookup-by-name",
                format!("value_of(`{name}`) is None although the assignment lists it"),
            )),
            Some(l) => {
                if l.to_bits() != v.to_bits() && (l - v).abs() > 0.0 {
                    out.push(f(
                        "lookup-by-name",
                        format!("value_of(`{name}`) = {l} but the assignment says {v}"),
                    ));
                }
            }
        }
    }
    if let Some(hv) = &sol.handle_values {
        for (i, h) in hv.iter().enumerate() {
            match h {
                None => out.push(f(
                    "handle-value",
                    format!("handle of `{}` does not resolve", m.vars[i].name),
                )),
                Some(v) => {
                    if v.to_bits() != x[i].to_bits() && (v - x[i]).abs() > 0.0 {
                        out.push(f(
                            "handle-value",
                            format!(
                                "handle of `{}` reads {v} but the assignment says {}",
                                m.vars[i].name, x[i]
                            ),
                        ));
                    }
                }
            }
        }
    }
}

/// Reported named-row activities against the rows of `reference` (the linear model the
/// solver was given) at the returned values; and, for a compiled model, its own rows and
/// the ranges of its auxiliary columns at the full returned assignment.
pub fn check_row_activities(
    m: &GenModel,
    reference: &RefModel,
    sol: &Sol,
    vals: &Values,
    out: &mut Vec<Finding>,
) {
    let col: Vec<f64> = reference
        .names
        .iter()
        .map(|n| vals.get(m, n).unwrap_or(0.0))
        .collect();
    let act_of = |coefs: &[f64]| coefs.iter().zip(&col).map(|(c, v)| c * v).sum::<f64>();
    for (name, reported) in &sol.rows {
        let candidates: Vec<f64> = reference
            .rows
            .iter()
            .filter(|(n, ..)| n == name)
            .map(|(_, coefs, ..)| act_of(coefs))
            .collect();
        if candidates.is_empty() {
            out.push(f(
                "row-activity",
                format!("solution reports an activity for `{name}`, which is not a row of the model"),
            ));
            continue;
        }
        let ok = candidates
            .iter()
            .any(|act| (act - reported).abs() <= TOL * act.abs().max(1.0));
        if !ok {
            out.push(f(
                "row-activity",
                format!(
                    "row `{name}`: reported activity {reported}, left-hand side at the returned values {:?}",
                    candidates
                ),
            ));
        }
    }
    if reference.aux.is_empty() {
        return; // the rows are the GenModel's own: `check_point` has judged them
    }
    for (name, lo, hi, integer) in &reference.aux {
        let Some(v) = vals.get(m, name) else { continue };
        if !v.is_finite() {
            out.push(f("non-finite-value", format!("{name} = {v}")));
            continue;
        }
        if v < lo - TOL * lo.abs().max(1.0) || v > hi + TOL * hi.abs().max(1.0) {
            out.push(f("bound-violated", format!("{name} = {v} outside [{lo}, {hi}]")));
        }
        if *integer && (v - v.round()).abs() > TOL {
            out.push(f("integrality-violated", format!("{name} = {v} is not integral")));
        }
    }
    for (ri, (name, coefs, cmp, rhs)) in reference.rows.iter().enumerate() {
        let act = act_of(coefs);
        let scale = coefs
            .iter()
            .zip(&col)
            .map(|(c, v)| (c * v).abs())
            .fold(rhs.abs().max(1.0), f64::max);
        let viol = match cmp {
            Cmp::Le => act - rhs,
            Cmp::Ge => rhs - act,
            Cmp::Eq => (act - rhs).abs(),
        };
        if !(viol <= TOL * scale) {
            out.push(f(
                "row-violated",
                format!(
                    "compiled row {ri} `{name}`: activity {act} vs {cmp:?} {rhs} (violation {viol:e})"
                ),
            ));
        }
    }
}

/// For a run-away point (see `runaway`): a row or declared bound that the point violates
/// by more than 1e-5 *relative to that row's own terms*. A run-away iterate is "feasible at
/// its own magnitude" (the interior-point method's norm-relative residual test, and rooc's
/// own post-check, which is relative to each row's terms); a row whose terms are all small
/// and which is nevertheless missed is not explained by the magnitude of the point and is
/// judged as the ordinary violation it is.
fn unexcused_violation(m: &GenModel, sol: &Sol) -> Option<String> {
    const EXCUSE: f64 = 1e-5;
    let mut x = Vec::with_capacity(m.n());
    for v in &m.vars {
        x.push(sol.assignment.iter().find(|(n, _)| *n == v.name)?.1);
    }
    for (v, xi) in m.vars.iter().zip(&x) {
        let (lo, hi) = v.dom.bounds_f64();
        if !xi.is_finite() {
            continue;
        }
        if *xi < lo - EXCUSE * lo.abs().max(1.0) || *xi > hi + EXCUSE * hi.abs().max(1.0) {
            return Some(format!("{} = {xi} outside [{lo}, {hi}]", v.name));
        }
    }
    for (ri, r) in m.rows.iter().enumerate() {
        let act = m.row_activity(ri, &x);
        let scale = r
            .coefs
            .iter()
            .zip(&x)
            .map(|(c, v)| (c * v).abs())
            .fold(r.rhs.abs().max(1.0), f64::max);
        let viol = match r.cmp {
            Cmp::Le => act - r.rhs,
            Cmp::Ge => r.rhs - act,
            Cmp::Eq => (act - r.rhs).abs(),
        };
        if viol.is_finite() && scale.is_finite() && viol > EXCUSE * scale {
            return Some(format!(
                "row {ri} `{}`: activity {act} vs {:?} {} (violation {viol:e}, largest term {scale:e})",
                r.name, r.cmp, r.rhs
            ));
        }
    }
    None
}

fn runaway(m: &GenModel, sol: &Sol) -> bool {
    // (the objective's constant may legitimately be large: look at the optimised part)
    (sol.value - m.offset).abs() > 1e6 * m.value_scale().max(1.0)
        || sol.assignment.iter().any(|(_, v)| v.abs() > 1e6)
}

/// `offset` = the constant part of the objective as this entry point sees it: the float
/// tolerance is relative to the part that is optimised (plus rounding of the constant), not
/// to the total, which a large constant would turn into whole units of slack.
fn within_gap(value: f64, opt: f64, gap: f64, scale: f64, offset: f64) -> bool {
    (value - opt).abs()
        <= gap * value.abs().max(opt.abs())
            + TOL * (opt - offset).abs().max(scale)
            + 1e-9 * offset.abs()
}

/// C04: everything that must hold of any returned solution.
pub fn judge_c04(m: &GenModel, reference: &RefModel, res: &RunResult) -> Vec<Finding> {
    let mut out = Vec::new();
    if let Outcome::Sol(sol) = &res.outcome {
        if runaway(m, sol) {
            // an iterate of magnitude 1e6+ on data with |coefficients| <= 15 is not a
            // candidate solution at all; one class instead of a row-by-row post-mortem —
            // unless it misses a row by more than its own magnitude explains
            if let Some(what) = unexcused_violation(m, sol) {
                out.push(f(
                    "row-violated",
                    format!("{what}; the point has coordinates of magnitude 1e6 and more elsewhere, which does not explain it"),
                ));
                return out;
            }
            out.push(f(
                "runaway-solution",
                format!(
                    "returned a point of magnitude {:e} (objective {}) as a solution",
                    sol.assignment.iter().map(|(_, v)| v.abs()).fold(0.0, f64::max),
                    sol.value
                ),
            ));
            return out;
        }
        let aux = if reference.aux.is_empty() {
            Aux::None
        } else {
            Aux::Exactly(&reference.aux)
        };
        if let Some(vals) = values_by_var(m, sol, aux, &mut out) {
            check_point(m, sol, &vals.x, &mut out);
            check_row_activities(m, reference, sol, &vals, &mut out);
        }
    }
    out
}

pub fn interrupted(res: &RunResult) -> bool {
    res.clock.first_expired_read.is_some()
}

/// C05: verdicts and optimal values.
pub fn judge_c05(m: &GenModel, truth: Verdict, cfg: &RunCfg, res: &RunResult) -> Vec<Finding> {
    let mut out = Vec::new();
    let was_interrupted = interrupted(res);
    match &res.outcome {
        Outcome::Sol(sol) => match sol.label {
            Label::Optimal => match truth {
                Verdict::Optimal(opt) => {
                    let opt = opt.to_f64() - m.offset + m.offset_as_seen_by(cfg.entry.is_builder());
                    if !within_gap(
                        sol.value,
                        opt,
                        cfg.gap.allowed(),
                        m.value_scale(),
                        m.offset_as_seen_by(cfg.entry.is_builder()),
                    ) {
                        out.push(f(
                            "wrong-optimum",
                            format!(
                                "returned as optimal with value {} but the true optimum is {opt}",
                                sol.value
                            ),
                        ));
                    }
                }
                // the generated data is small (|coefficients| <= 15, vertices with
                // coordinates below 1e3): a "solution" whose objective or coordinates have
                // magnitude 1e6 and more is an interior-point iterate that ran away, a
                // different failure from a plausible-looking wrong answer
                Verdict::Infeasible => out.push(f(
                    if runaway(m, sol) && unexcused_violation(m, sol).is_none() {
                        "solution-for-infeasible:huge"
                    } else {
                        "solution-for-infeasible"
                    },
                    format!("returned a solution (value {}) for an infeasible model", sol.value),
                )),
                Verdict::Unbounded => out.push(f(
                    if runaway(m, sol) {
                        "optimum-for-unbounded:huge"
                    } else {
                        "optimum-for-unbounded"
                    },
                    format!("returned an optimum (value {}) for an unbounded model", sol.value),
                )),
            },
            Label::Feasible => {
                if truth == Verdict::Infeasible {
                    out.push(f(
                        "solution-for-infeasible",
                        format!("returned a feasible-labelled solution (value {}) for an infeasible model", sol.value),
                    ));
                }
            }
            Label::Infeasible | Label::Unbounded => out.push(f(
                "bad-status-label",
                format!("a solution was returned with status {:?}", sol.label),
            )),
        },
        Outcome::Err { kind, msg } => match kind {
            ErrKind::Infeasible => {
                if truth != Verdict::Infeasible {
                    out.push(f(
                        "false-infeasible",
                        format!("reported infeasible; the model is {}", truth.tag()),
                    ));
                }
            }
            ErrKind::Unbounded => {
                if truth != Verdict::Unbounded {
                    out.push(f(
                        "false-unbounded",
                        format!("reported unbounded; the model is {}", truth.tag()),
                    ));
                }
            }
            other => {
                if !was_interrupted && cfg.gap.is_valid() && cfg.entry.simplex_based() {
                    out.push(f(
                        "missing-verdict",
                        format!(
                            "uninterrupted run ended with error kind {other:?} (`{msg}`) instead of a verdict; the model is {}",
                            truth.tag()
                        ),
                    ));
                }
            }
        },
        Outcome::Panic { msg } => {
            if !was_interrupted {
                out.push(f("panic", format!("panicked: {msg}")));
            }
        }
        Outcome::Hung { secs } => out.push(f(
            "hang",
            format!(
                "did not return within {secs} s of wall-clock time (the limit-taking twin of this call terminated within its step budget); the model is {}",
                truth.tag()
            ),
        )),
        Outcome::NotRun => {}
        Outcome::NoProgress { reads } => out.push(f(
            "no-progress",
            format!(
                "no verdict within the step budget ({reads} clock reads, i.e. more than {} simplex iterations or B&B nodes); the model is {}",
                reads.saturating_sub(1) * 1000 / 2,
                truth.tag()
            ),
        )),
    }
    out
}

/// C15: the limit / gap contract of the MILP entry point.
pub fn judge_c15(m: &GenModel, truth: Verdict, cfg: &RunCfg, res: &RunResult) -> Vec<Finding> {
    let mut out = Vec::new();
    if !cfg.gap.is_valid() {
        match &res.outcome {
            Outcome::Err { .. } => {}
            other => out.push(f(
                "invalid-gap-accepted",
                format!("gap {:?} is invalid but the call returned {}", cfg.gap, other.tag()),
            )),
        }
        return out;
    }
    match &res.outcome {
        Outcome::Sol(sol) => {
            let aux = if sol.handle_values.is_some() && !m.decor.is_empty() {
                Aux::AnyGenerated
            } else {
                Aux::None
            };
            if let Some(vals) = values_by_var(m, sol, aux, &mut out) {
                let mut pf = Vec::new();
                check_point(m, sol, &vals.x, &mut pf);
                for mut p in pf {
                    if p.class != "objective-mismatch" && p.class != "handle-value" {
                        p.class = format!("infeasible-solution:{}", p.class);
                    }
                    out.push(p);
                }
            }
            match sol.label {
                Label::Optimal => match truth {
                    Verdict::Optimal(opt) => {
                        let opt = opt.to_f64() - m.offset + m.offset_as_seen_by(cfg.entry.is_builder());
                        if !within_gap(
                        sol.value,
                        opt,
                        cfg.gap.allowed(),
                        m.value_scale(),
                        m.offset_as_seen_by(cfg.entry.is_builder()),
                    ) {
                            out.push(f(
                                "optimal-label-outside-gap",
                                format!(
                                    "labelled optimal with value {}, true optimum {opt}, requested gap {}",
                                    sol.value,
                                    cfg.gap.allowed()
                                ),
                            ));
                        }
                    }
                    other => out.push(f(
                        "optimal-label-without-optimum",
                        format!("labelled optimal (value {}) but the model is {}", sol.value, other.tag()),
                    )),
                },
                Label::Feasible => {}
                Label::Infeasible | Label::Unbounded => out.push(f(
                    "bad-status-label",
                    format!("a solution was returned with status {:?}", sol.label),
                )),
            }
        }
        Outcome::Err { kind, .. } => match kind {
            // A wrong verdict from a run whose limit never fired is not a consequence of the
            // limit or the gap: that is C05's matter and is judged there.
            ErrKind::Infeasible => {
                if truth != Verdict::Infeasible && interrupted(res) {
                    out.push(f(
                        "interruption-reported-as-infeasible",
                        format!(
                            "the limit fired and the call reported infeasible; the model is {}",
                            truth.tag()
                        ),
                    ));
                }
            }
            ErrKind::Unbounded => {
                if truth != Verdict::Unbounded && interrupted(res) {
                    out.push(f(
                        "interruption-reported-as-unbounded",
                        format!(
                            "the limit fired and the call reported unbounded; the model is {}",
                            truth.tag()
                        ),
                    ));
                }
            }
            _ => {}
        },
        // C15 speaks about what a call returns when a limit stops it and about rejecting
        // invalid options: a panic is its matter when the limit fired (an error, not a crash,
        // is owed) or the options were invalid. A crash of an uninterrupted run with valid
        // options is judged under C05 (same model, same entry point, no clock involved).
        Outcome::Panic { msg } => {
            if interrupted(res) || !cfg.gap.is_valid() {
                out.push(f("panic", format!("panicked: {msg}")));
            }
        }
        Outcome::NoProgress { .. } | Outcome::Hung { .. } | Outcome::NotRun => {}
    }
    out
}
