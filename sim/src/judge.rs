//! Oracles for the solver world: certificate checks on returned solutions (C04), verdict
//! and optimum checks against the exact reference (C05), and the limit / gap contract (C15).

use crate::model::{Cmp, GenModel};
use crate::oracle::Verdict;
use crate::solvers::{ErrKind, Label, Outcome, RunCfg, RunResult, Sol};

pub const TOL: f64 = 1e-6;

#[derive(Clone, Debug, PartialEq)]
pub struct Finding {
    pub class: String,
    pub detail: String,
}

fn f(class: &str, detail: String) -> Finding {
    Finding {
        class: class.to_string(),
        detail,
    }
}

/// Values by model variable order, plus findings about the shape of the assignment.
pub fn values_by_var(m: &GenModel, sol: &Sol, out: &mut Vec<Finding>) -> Option<Vec<f64>> {
    let mut vals: Vec<Option<f64>> = vec![None; m.n()];
    let mut ok = true;
    for (name, v) in &sol.assignment {
        match m.vars.iter().position(|x| &x.name == name) {
            None => {
                out.push(f(
                    "assignment-names",
                    format!("solution assigns `{name}`, which is not a variable of the model"),
                ));
                ok = false;
            }
            Some(i) => {
                if vals[i].is_some() {
                    out.push(f(
                        "assignment-names",
                        format!("variable `{name}` has more than one value"),
                    ));
                    ok = false;
                } else {
                    vals[i] = Some(*v);
                }
            }
        }
    }
    for (i, v) in vals.iter().enumerate() {
        if v.is_none() {
            out.push(f(
                "assignment-names",
                format!("variable `{}` has no value", m.vars[i].name),
            ));
            ok = false;
        }
    }
    if !ok {
        return None;
    }
    Some(vals.into_iter().map(|v| v.unwrap()).collect())
}

/// (i) rows, bounds, integrality; (ii) reported objective; handles.
pub fn check_point(m: &GenModel, sol: &Sol, x: &[f64], out: &mut Vec<Finding>) {
    for (i, v) in m.vars.iter().enumerate() {
        let xi = x[i];
        if !xi.is_finite() {
            out.push(f(
                "non-finite-value",
                format!("{} = {xi}", v.name),
            ));
            continue;
        }
        let (lo, hi) = v.dom.bounds_f64();
        if xi < lo - TOL * lo.abs().max(1.0) || xi > hi + TOL * hi.abs().max(1.0) {
            out.push(f(
                "bound-violated",
                format!("{} = {xi} outside [{lo}, {hi}]", v.name),
            ));
        }
        if v.dom.is_integer() && (xi - xi.round()).abs() > TOL {
            out.push(f(
                "integrality-violated",
                format!("{} = {xi} is not integral", v.name),
            ));
        }
    }
    for (ri, r) in m.rows.iter().enumerate() {
        let act = m.row_activity(ri, x);
        let scale = r
            .coefs
            .iter()
            .zip(x)
            .map(|(c, v)| (c * v).abs())
            .fold(r.rhs.abs().max(1.0), f64::max);
        let viol = match r.cmp {
            Cmp::Le => act - r.rhs,
            Cmp::Ge => r.rhs - act,
            Cmp::Eq => (act - r.rhs).abs(),
        };
        if !(viol <= TOL * scale) {
            out.push(f(
                "row-violated",
                format!(
                    "row {ri} `{}`: activity {act} vs {:?} {} (violation {viol:e})",
                    r.name, r.cmp, r.rhs
                ),
            ));
        }
    }
    let builder = sol.handle_values.is_some();
    let obj = m.objective_at(x) - m.offset + m.offset_as_seen_by(builder);
    if !((sol.value - obj).abs() <= TOL * obj.abs().max(1.0)) {
        out.push(f(
            "objective-mismatch",
            format!(
                "reported value {} but the objective at the returned values is {obj}",
                sol.value
            ),
        ));
    }
    for ((name, v), looked_up) in sol.assignment.iter().zip(&sol.lookups) {
        match looked_up {
            None => out.push(f(
                "lookup-by-name",
                format!("value_of(`{name}`) is None although the assignment lists it"),
            )),
            Some(l) => {
                if l.to_bits() != v.to_bits() && (l - v).abs() > 0.0 {
                    out.push(f(
                        "lookup-by-name",
                        format!("value_of(`{name}`) = {l} but the assignment says {v}"),
                    ));
                }
            }
        }
    }
    if let Some(hv) = &sol.handle_values {
        for (i, h) in hv.iter().enumerate() {
            match h {
                None => out.push(f(
                    "handle-value",
                    format!("handle of `{}` does not resolve", m.vars[i].name),
                )),
                Some(v) => {
                    if v.to_bits() != x[i].to_bits() && (v - x[i]).abs() > 0.0 {
                        out.push(f(
                            "handle-value",
                            format!(
                                "handle of `{}` reads {v} but the assignment says {}",
                                m.vars[i].name, x[i]
                            ),
                        ));
                    }
                }
            }
        }
    }
}

/// Reported named-row activities against the rows of `reference` (the linear model the
/// solver was given) at the returned values.
pub fn check_row_activities(
    reference_rows: &[(String, Vec<f64>)],
    sol: &Sol,
    x: &[f64],
    out: &mut Vec<Finding>,
) {
    for (name, reported) in &sol.rows {
        let candidates: Vec<f64> = reference_rows
            .iter()
            .filter(|(n, _)| n == name)
            .map(|(_, coefs)| coefs.iter().zip(x).map(|(c, v)| c * v).sum::<f64>())
            .collect();
        if candidates.is_empty() {
            out.push(f(
                "row-activity",
                format!("solution reports an activity for `{name}`, which is not a row of the model"),
            ));
            continue;
        }
        let ok = candidates
            .iter()
            .any(|act| (act - reported).abs() <= TOL * act.abs().max(1.0));
        if !ok {
            out.push(f(
                "row-activity",
                format!(
                    "row `{name}`: reported activity {reported}, left-hand side at the returned values {:?}",
                    candidates
                ),
            ));
        }
    }
}

fn runaway(sol: &Sol) -> bool {
    sol.value.abs() > 1e6 || sol.assignment.iter().any(|(_, v)| v.abs() > 1e6)
}

fn within_gap(value: f64, opt: f64, gap: f64) -> bool {
    (value - opt).abs() <= gap * value.abs().max(opt.abs()) + TOL * opt.abs().max(1.0)
}

/// C04: everything that must hold of any returned solution.
pub fn judge_c04(
    m: &GenModel,
    reference_rows: &[(String, Vec<f64>)],
    res: &RunResult,
) -> Vec<Finding> {
    let mut out = Vec::new();
    if let Outcome::Sol(sol) = &res.outcome {
        if runaway(sol) {
            // an iterate of magnitude 1e6+ on data with |coefficients| <= 15 is not a
            // candidate solution at all; one class instead of a row-by-row post-mortem
            out.push(f(
                "runaway-solution",
                format!(
                    "returned a point of magnitude {:e} (objective {}) as a solution",
                    sol.assignment.iter().map(|(_, v)| v.abs()).fold(0.0, f64::max),
                    sol.value
                ),
            ));
            return out;
        }
        if let Some(x) = values_by_var(m, sol, &mut out) {
            check_point(m, sol, &x, &mut out);
            check_row_activities(reference_rows, sol, &x, &mut out);
        }
    }
    out
}

pub fn interrupted(res: &RunResult) -> bool {
    res.clock.first_expired_read.is_some()
}

/// C05: verdicts and optimal values.
pub fn judge_c05(m: &GenModel, truth: Verdict, cfg: &RunCfg, res: &RunResult) -> Vec<Finding> {
    let mut out = Vec::new();
    let was_interrupted = interrupted(res);
    match &res.outcome {
        Outcome::Sol(sol) => match sol.label {
            Label::Optimal => match truth {
                Verdict::Optimal(opt) => {
                    let opt = opt.to_f64() - m.offset + m.offset_as_seen_by(cfg.entry.is_builder());
                    if !within_gap(sol.value, opt, cfg.gap.allowed()) {
                        out.push(f(
                            "wrong-optimum",
                            format!(
                                "returned as optimal with value {} but the true optimum is {opt}",
                                sol.value
                            ),
                        ));
                    }
                }
                // the generated data is small (|coefficients| <= 15, vertices with
                // coordinates below 1e3): a "solution" whose objective or coordinates have
                // magnitude 1e6 and more is an interior-point iterate that ran away, a
                // different failure from a plausible-looking wrong answer
                Verdict::Infeasible => out.push(f(
                    if runaway(sol) {
                        "solution-for-infeasible:huge"
                    } else {
                        "solution-for-infeasible"
                    },
                    format!("returned a solution (value {}) for an infeasible model", sol.value),
                )),
                Verdict::Unbounded => out.push(f(
                    if runaway(sol) {
                        "optimum-for-unbounded:huge"
                    } else {
                        "optimum-for-unbounded"
                    },
                    format!("returned an optimum (value {}) for an unbounded model", sol.value),
                )),
            },
            Label::Feasible => {
                if truth == Verdict::Infeasible {
                    out.push(f(
                        "solution-for-infeasible",
                        format!("returned a feasible-labelled solution (value {}) for an infeasible model", sol.value),
                    ));
                }
            }
            Label::Infeasible | Label::Unbounded => out.push(f(
                "bad-status-label",
                format!("a solution was returned with status {:?}", sol.label),
            )),
        },
        Outcome::Err { kind, msg } => match kind {
            ErrKind::Infeasible => {
                if truth != Verdict::Infeasible {
                    out.push(f(
                        "false-infeasible",
                        format!("reported infeasible; the model is {}", truth.tag()),
                    ));
                }
            }
            ErrKind::Unbounded => {
                if truth != Verdict::Unbounded {
                    out.push(f(
                        "false-unbounded",
                        format!("reported unbounded; the model is {}", truth.tag()),
                    ));
                }
            }
            other => {
                if !was_interrupted && cfg.gap.is_valid() && cfg.entry.simplex_based() {
                    out.push(f(
                        "missing-verdict",
                        format!(
                            "uninterrupted run ended with error kind {other:?} (`{msg}`) instead of a verdict; the model is {}",
                            truth.tag()
                        ),
                    ));
                }
            }
        },
        Outcome::Panic { msg } => {
            if !was_interrupted {
                out.push(f("panic", format!("panicked: {msg}")));
            }
        }
        Outcome::Hung { secs } => out.push(f(
            "hang",
            format!(
                "did not return within {secs} s of wall-clock time (the limit-taking twin of this call terminated within its step budget); the model is {}",
                truth.tag()
            ),
        )),
        Outcome::NotRun => {}
        Outcome::NoProgress { reads } => out.push(f(
            "no-progress",
            format!(
                "no verdict within the step budget ({reads} clock reads, i.e. more than {} simplex iterations or B&B nodes); the model is {}",
                reads.saturating_sub(1) * 1000 / 2,
                truth.tag()
            ),
        )),
    }
    out
}

/// C15: the limit / gap contract of the MILP entry point.
pub fn judge_c15(m: &GenModel, truth: Verdict, cfg: &RunCfg, res: &RunResult) -> Vec<Finding> {
    let mut out = Vec::new();
    if !cfg.gap.is_valid() {
        match &res.outcome {
            Outcome::Err { .. } => {}
            other => out.push(f(
                "invalid-gap-accepted",
                format!("gap {:?} is invalid but the call returned {}", cfg.gap, other.tag()),
            )),
        }
        return out;
    }
    match &res.outcome {
        Outcome::Sol(sol) => {
            if let Some(x) = values_by_var(m, sol, &mut out) {
                let mut pf = Vec::new();
                check_point(m, sol, &x, &mut pf);
                for mut p in pf {
                    if p.class != "objective-mismatch" && p.class != "handle-value" {
                        p.class = format!("infeasible-solution:{}", p.class);
                    }
                    out.push(p);
                }
            }
            match sol.label {
                Label::Optimal => match truth {
                    Verdict::Optimal(opt) => {
                        let opt = opt.to_f64() - m.offset + m.offset_as_seen_by(cfg.entry.is_builder());
                        if !within_gap(sol.value, opt, cfg.gap.allowed()) {
                            out.push(f(
                                "optimal-label-outside-gap",
                                format!(
                                    "labelled optimal with value {}, true optimum {opt}, requested gap {}",
                                    sol.value,
                                    cfg.gap.allowed()
                                ),
                            ));
                        }
                    }
                    other => out.push(f(
                        "optimal-label-without-optimum",
                        format!("labelled optimal (value {}) but the model is {}", sol.value, other.tag()),
                    )),
                },
                Label::Feasible => {}
                Label::Infeasible | Label::Unbounded => out.push(f(
                    "bad-status-label",
                    format!("a solution was returned with status {:?}", sol.label),
                )),
            }
        }
        Outcome::Err { kind, .. } => match kind {
            // A wrong verdict from a run whose limit never fired is not a consequence of the
            // limit or the gap: that is C05's matter and is judged there.
            ErrKind::Infeasible => {
                if truth != Verdict::Infeasible && interrupted(res) {
                    out.push(f(
                        "interruption-reported-as-infeasible",
                        format!(
                            "the limit fired and the call reported infeasible; the model is {}",
                            truth.tag()
                        ),
                    ));
                }
            }
            ErrKind::Unbounded => {
                if truth != Verdict::Unbounded && interrupted(res) {
                    out.push(f(
                        "interruption-reported-as-unbounded",
                        format!(
                            "the limit fired and the call reported unbounded; the model is {}",
                            truth.tag()
                        ),
                    ));
                }
            }
            _ => {}
        },
        Outcome::Panic { msg } => out.push(f("panic", format!("panicked: {msg}"))),
        Outcome::NoProgress { .. } | Outcome::Hung { .. } | Outcome::NotRun => {}
    }
    out
}
