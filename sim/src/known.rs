//! Known findings: genuine defects that are recorded rather than repaired. The committed
//! file `/verif/known_findings.txt` lists them; it is read, never written, at run time. A
//! violation is attributed to a finding only when property, class, call site, exact truth
//! and a structural tag of the input all match, so any other violation of the same
//! property is still reported.

use crate::case::{Case, Violation};
use crate::model::{Dom, GenModel};

#[derive(Clone, Debug)]
pub struct Known {
    pub id: String,
    pub prop: String,
    pub class: String,
    /// substrings, any of which must occur in the violation's entry point name
    pub entries: Vec<String>,
    pub truth: Option<String>,
    pub tag: Option<String>,
    /// substring that must occur in the violation's detail (`+` stands for a space)
    pub detail: Option<String>,
    pub text: String,
}

pub fn load(path: &str) -> Result<Vec<Known>, String> {
    let Ok(content) = std::fs::read_to_string(path) else {
        return Ok(Vec::new());
    };
    let mut out = Vec::new();
    for (ln, line) in content.lines().enumerate() {
        let line = line.trim();
        if line.is_empty() || line.starts_with('#') || line.starts_with("fixed:") {
            continue;
        }
        let Some(rest) = line.strip_prefix("finding:") else {
            return Err(format!("{path}:{}: unrecognised line", ln + 1));
        };
        let (fields, text) = match rest.split_once("::") {
            Some((f, t)) => (f, t.trim().to_string()),
            None => (rest, String::new()),
        };
        let mut k = Known {
            id: String::new(),
            prop: String::new(),
            class: String::new(),
            entries: Vec::new(),
            truth: None,
            tag: None,
            detail: None,
            text,
        };
        for kv in fields.split_whitespace() {
            let Some((key, val)) = kv.split_once('=') else {
                return Err(format!("{path}:{}: bad field `{kv}`", ln + 1));
            };
            match key {
                "id" => k.id = val.to_string(),
                "property" => k.prop = val.to_string(),
                "class" => k.class = val.to_string(),
                "entry" => k.entries = val.split(',').map(|s| s.to_string()).collect(),
                "truth" => k.truth = Some(val.to_string()),
                "tag" => k.tag = Some(val.to_string()),
                "detail" => k.detail = Some(val.replace('+', " ")),
                other => return Err(format!("{path}:{}: unknown field `{other}`", ln + 1)),
            }
        }
        if k.id.is_empty() || k.prop.is_empty() || k.class.is_empty() {
            return Err(format!("{path}:{}: finding needs id, property and class", ln + 1));
        }
        out.push(k);
    }
    Ok(out)
}

fn model_of(case: &Case) -> Option<&GenModel> {
    match case {
        Case::Solver(s) => Some(&s.model),
        Case::Tableau(t) => match &t.source {
            crate::tableau_world::TableauSource::Model(m) => Some(m),
            _ => None,
        },
        Case::Bounds(_) => None,
    }
}

fn bounds_case_has_tag(c: &crate::bounds_world::BoundsCase, tag: &str) -> bool {
    use crate::bounds_world::SExp;
    match tag {
        // some multiplier of the source model is non-zero but smaller than 1e-8 (below the
        // analyzer's own absolute tolerance of 1e-9, or next to it)
        "tiny-coefficient" => c.model.cons.iter().any(|con| {
            let mut subs = Vec::new();
            con.lhs.subexpressions(&mut subs);
            con.rhs.subexpressions(&mut subs);
            subs.iter().any(|e| match e {
                SExp::MulL(d, _) | SExp::MulR(_, d) => {
                    let v = d.f().abs();
                    v != 0.0 && v < 1e-8
                }
                SExp::Div(_, d) => d.f().abs() > 1e8,
                _ => false,
            })
        }),
        // some multiplier / divisor of the source model has magnitude below 1e-6 or above 1e6
        "extreme-coefficient" => c.model.cons.iter().any(|con| {
            let mut subs = Vec::new();
            con.lhs.subexpressions(&mut subs);
            con.rhs.subexpressions(&mut subs);
            subs.iter().any(|e| match e {
                SExp::MulL(d, _) | SExp::MulR(_, d) | SExp::Div(_, d) => {
                    let v = d.f().abs();
                    v != 0.0 && !(1e-6..=1e6).contains(&v)
                }
                _ => false,
            })
        }),
        _ => false,
    }
}

pub fn has_tag(case: &Case, tag: &str) -> bool {
    if let Case::Bounds(b) = case {
        return bounds_case_has_tag(b, tag);
    }
    let Some(m) = model_of(case) else {
        return false;
    };
    match tag {
        // a continuous variable with no finite bound on either side
        "free-variable" => m.vars.iter().any(|v| v.dom.is_free()),
        // a continuous variable that occurs in no row, has zero cost and an infinite bound
        "unconstrained-unbounded-column" => (0..m.n()).any(|j| {
            let (lo, hi) = m.vars[j].dom.bounds_f64();
            !m.vars[j].dom.is_integer()
                && (lo.is_infinite() || hi.is_infinite())
                && m.effective_obj()[j] == 0.0
                && m.rows.iter().all(|r| r.coefs[j] == 0.0)
        }),
        "no-variables" => m.n() == 0,
        // some row coefficient of magnitude 4096 or more (the tableau simplex compares
        // with an absolute tolerance after dividing rows by such pivots)
        "large-coefficient" => m
            .rows
            .iter()
            .any(|r| r.coefs.iter().any(|c| c.abs() >= 4096.0)),
        // every variable continuous (an LP)
        "continuous" => m.is_continuous(),
        // the equality rows are linearly dependent (exact rank < number of equality rows)
        "dependent-equality-rows" => {
            use crate::q::Q;
            let mut rows: Vec<Vec<Q>> = m
                .rows
                .iter()
                .filter(|r| r.cmp == crate::model::Cmp::Eq)
                .map(|r| r.coefs.iter().map(|c| Q::from_f64(*c)).collect())
                .collect();
            let total = rows.len();
            let mut rank = 0;
            for col in 0..m.n() {
                if let Some(p) = (rank..rows.len()).find(|i| !rows[*i][col].is_zero()) {
                    rows.swap(rank, p);
                    let piv = rows[rank].clone();
                    for i in 0..rows.len() {
                        if i != rank && !rows[i][col].is_zero() {
                            let f = rows[i][col].div(piv[col]);
                            for k in 0..m.n() {
                                rows[i][k] = rows[i][k].sub(f.mul(piv[k]));
                            }
                        }
                    }
                    rank += 1;
                }
            }
            m.is_continuous() && rank < total
        }
        // bound propagation inside the builder / compiler front door narrows some continuous
        // variable to a sliver (narrower than 1e-6 relative, but not a point): the linear
        // model handed to the solver is then numerically on a tolerance edge although the
        // source model is not
        "propagation-pins-continuous-variable" => {
            let (b, _) = crate::solvers::to_builder(m);
            match std::panic::catch_unwind(std::panic::AssertUnwindSafe(|| b.linearize())) {
                Ok(Ok(lm)) => lm.domain().values().any(|d| match d.get_type() {
                    rooc::VariableType::Real(lo, hi) | rooc::VariableType::NonNegativeReal(lo, hi) => {
                        let w = hi - lo;
                        w > 0.0 && w < 1e-6 * lo.abs().max(1.0)
                    }
                    _ => false,
                }),
                _ => false,
            }
        }
        "has-equality-or-free" => {
            m.vars.iter().any(|v| matches!(v.dom, Dom::Real { .. }))
        }
        _ => false,
    }
}

pub fn matches(k: &Known, case: &Case, v: &Violation) -> bool {
    k.prop == v.prop
        && k.class == v.class
        && (k.entries.is_empty() || k.entries.iter().any(|e| v.entry.contains(e.as_str())))
        && k.truth.as_ref().map_or(true, |t| *t == v.truth)
        && k.tag.as_ref().map_or(true, |t| has_tag(case, t))
        && k.detail.as_ref().map_or(true, |d| v.detail.contains(d.as_str()))
}
