//! rooc-sim: deterministic simulation with fault injection for Specy/rooc.
//! See /verif/DESIGN.md. Exit codes: 0 held, 1 VIOLATION, 2 harness error.

mod bounds_world;
mod case;
mod generate;
mod judge;
mod known;
mod minimize;
mod model;
mod oracle;
mod q;
mod rng;
mod solvers;
mod tableau_world;
mod worlds;

use case::{run_case, Case, ReplayFile, Violation};
use serde_json::json;
use std::collections::{BTreeMap, HashSet};
use std::sync::atomic::{AtomicUsize, Ordering};
use std::sync::Mutex;
use std::time::Instant;
use worlds::{Tier, UnitReport};

const DEFAULT_SEED: u64 = 20260925;
/// Where known_findings.txt is read and replays/ and evidence/ are written: /verif, unless
/// VERIF_HOME points a background sweep at its own snapshot.
fn verif_dir() -> String {
    std::env::var("VERIF_HOME").unwrap_or_else(|_| "/verif".to_string())
}

thread_local! {
    static LAST_PANIC: std::cell::RefCell<String> = const { std::cell::RefCell::new(String::new()) };
}

fn install_quiet_panic_hook() {
    std::panic::set_hook(Box::new(|info| {
        let loc = info
            .location()
            .map(|l| format!("{}:{}", l.file(), l.line()))
            .unwrap_or_default();
        let msg = solvers::panic_message(info.payload());
        LAST_PANIC.with(|p| *p.borrow_mut() = format!("{msg} at {loc}"));
    }));
}

fn units_for(prop: &str, tier: Tier) -> u64 {
    if let Ok(v) = std::env::var("VERIF_UNITS") {
        if let Ok(n) = v.parse() {
            return n;
        }
    }
    match (prop, tier) {
        ("C15", Tier::Quick) => 12_000,
        ("C15", Tier::Thorough) => 400_000,
        ("C04", Tier::Quick) | ("C05", Tier::Quick) => 8_000,
        ("C04", Tier::Thorough) | ("C05", Tier::Thorough) => 300_000,
        ("C14", Tier::Quick) => 60_000,
        ("C14", Tier::Thorough) => 3_000_000,
        ("C07", Tier::Quick) => 6_000,
        ("C07", Tier::Thorough) => 200_000,
        _ => 1_000,
    }
}

fn wall_cap_secs(tier: Tier) -> u64 {
    match tier {
        Tier::Quick => 900,
        Tier::Thorough => 6 * 3600,
    }
}

fn level_of(prop: &str) -> &'static str {
    match prop {
        "C15" | "C07" => "fault_enumeration",
        _ => "exploration",
    }
}

fn explore(prop: &str, seed: u64, index: u64, tier: Tier) -> UnitReport {
    let unit_seed = rng::run_seed(seed, prop_world(prop), index);
    match prop {
        "C15" => worlds::explore_c15(unit_seed, tier),
        "C04" | "C05" => worlds::explore_c0405(prop, unit_seed, tier),
        "C14" => worlds::explore_c14(unit_seed, index, tier),
        "C07" => worlds::explore_c07(unit_seed, tier),
        other => panic!("no check for property {other}"),
    }
}

/// C04 and C05 look at the same simulated world (same models, same runs).
fn prop_world(prop: &str) -> &str {
    match prop {
        "C04" | "C05" => "solver-agreement-world",
        p => p,
    }
}

fn run_units(prop: &str, seed: u64, units: u64, tier: Tier, threads: usize) -> Vec<UnitReport> {
    let next = AtomicUsize::new(0);
    let slots: Vec<Mutex<Option<UnitReport>>> = (0..units).map(|_| Mutex::new(None)).collect();
    std::thread::scope(|s| {
        for _ in 0..threads.max(1) {
            s.spawn(|| loop {
                let i = next.fetch_add(1, Ordering::Relaxed);
                if i as u64 >= units {
                    break;
                }
                let trace = std::env::var("VERIF_TRACE_UNITS").is_ok();
                if trace {
                    eprintln!("unit {i} start");
                }
                let rep = match std::panic::catch_unwind(std::panic::AssertUnwindSafe(|| {
                    explore(prop, seed, i as u64, tier)
                })) {
                    Ok(r) => r,
                    Err(_) => {
                        let mut r = UnitReport::default();
                        r.harness_errors.push(format!(
                            "unit {i} panicked inside the harness: {}",
                            LAST_PANIC.with(|p| p.borrow().clone())
                        ));
                        r
                    }
                };
                if trace {
                    eprintln!("unit {i} end");
                }
                *slots[i].lock().unwrap() = Some(rep);
            });
        }
    });
    slots
        .into_iter()
        .map(|m| m.into_inner().unwrap().expect("unit ran"))
        .collect()
}

fn rule_for(prop: &str) -> &'static str {
    match prop {
        "C15" => "unit = one seeded MILP/LP model x one gap x one front door; for it the simulated clock is frozen and made to jump past the deadline at read k for EVERY k = 1..N+1 (N = clock reads of the uninterrupted run; stratified above 440), plus limit0 / tick / jump schedules and invalid gaps. evaluations = simulated solves. A case is non-trivial when the limit actually fired (some clock read saw the deadline passed) or a gap stop returned a value different from the optimum; distinct = distinct (model, gap, first expired read, outcome) tuples, counted by hash.",
        "C04" | "C05" => "unit = one seeded model given to every built-in entry point that accepts it (auto, MILP, MILP with limit under stall / expire@k / limit0, real microlp, Clarabel, tableau simplex, builder Auto/Microlp/Clarabel), microlp-backed entry points additionally under tick/jump clocks. evaluations = simulated solver calls. A model is non-trivial when it has at least one non-empty row or a non-optimal exact verdict; distinct = distinct models by hash of their full description.",
        "C14" => "unit = one seeded canonical tableau / phase-1 tableau / continuous model through into_tableau, driven by a seeded schedule of step / solve(budget) / solve_avoiding(budget,S) / solve_step_by_step(budget) / snapshot operations, after enumerating EVERY prefix of its uninterrupted solve. evaluations = driven inputs. Non-trivial = at least one pivot was checked exactly and the case was not skipped as tolerance-edge; distinct = distinct pivot sequences (hash of the (entering, leaving row) history).",
        "C07" => "unit = one seeded source model; the propagation work-list is interrupted after k steps for EVERY k = 0..N+1 (N = steps to quiescence; stratified above 320) plus the shipped budget. evaluations = analyses run. Non-trivial = the budget was hit before quiescence; distinct = distinct (model, k, published ranges) tuples by hash.",
        _ => "",
    }
}

fn distinct_measure(prop: &str) -> &'static str {
    match prop {
        "C15" | "C04" | "C05" => "distinct (model, entry point, bit-exact outcome) tuples",
        "C14" => "distinct pivot sequences",
        "C07" => "distinct (model, published ranges) tuples",
        _ => "",
    }
}

fn components() -> serde_json::Value {
    json!({
        "real_code": ["rooc (current /repo working tree, feature rooc_verif; solver functions, builder front doors and the pipe runner with its solver stages)", "microlp 0.5.0", "good_lp", "clarabel", "sprs"],
        "stub": ["web-time 1.1.0 -> /verif/sim/web-time-sim (thread-local simulated clock read by microlp)", "clock_gettime(CLOCK_MONOTONIC) defined by the harness executable: std::time::Instant reads the same simulated clock on simulated threads (Clarabel's timers; any std clock a change to rooc reads)"],
        "reference_model": ["exact rational oracle (Q over i128): integer enumeration + Fourier-Motzkin", "exact rational tableau", "exact per-variable feasible ranges by disjunctive expansion"],
        "real_clock": ["none on simulated threads; SystemTime (CLOCK_REALTIME) is not simulated and not read by rooc or its solvers"],
    })
}

struct CheckOutcome {
    exit: i32,
}

fn check(prop: &str, tier: Tier) -> CheckOutcome {
    let started = Instant::now();
    let seed: u64 = std::env::var("VERIF_SEED")
        .ok()
        .and_then(|s| s.parse().ok())
        .unwrap_or(DEFAULT_SEED);
    let threads: usize = std::env::var("VERIF_THREADS")
        .ok()
        .and_then(|s| s.parse().ok())
        .unwrap_or_else(|| std::thread::available_parallelism().map(|n| n.get()).unwrap_or(4));
    let units = units_for(prop, tier);
    println!("rooc-sim check property={prop} tier={tier:?} VERIF_SEED={seed} units={units} threads={threads}");

    // last-resort net: a wedged run is a harness error, never a verdict
    let cap = wall_cap_secs(tier);
    std::thread::spawn(move || {
        std::thread::sleep(std::time::Duration::from_secs(cap));
        eprintln!("HARNESS-ERROR: wall-clock cap of {cap}s exceeded");
        extern "C" {
            fn _exit(status: i32) -> !;
        }
        unsafe { _exit(2) }
    });

    let known = match known::load(&format!("{}/known_findings.txt", verif_dir())) {
        Ok(k) => k,
        Err(e) => {
            eprintln!("HARNESS-ERROR: {e}");
            return CheckOutcome { exit: 2 };
        }
    };

    let reports = run_units(prop, seed, units, tier, threads);

    // fold in unit order: worker count cannot change anything below
    let mut evaluations = 0u64;
    let mut nontrivial: HashSet<u64> = HashSet::new();
    let mut states: HashSet<u64> = HashSet::new();
    let mut counters: BTreeMap<String, u64> = BTreeMap::new();
    let mut failures: Vec<(u64, Case, Violation)> = Vec::new();
    let mut harness_errors: Vec<String> = Vec::new();
    let mut samples: Vec<serde_json::Value> = Vec::new();
    let mut sim_nanos: u128 = 0;
    let mut digest = 0xcbf2_9ce4_8422_2325u64;
    for (i, r) in reports.into_iter().enumerate() {
        evaluations += r.evaluations;
        nontrivial.extend(r.nontrivial);
        states.extend(r.states);
        for (k, v) in r.counters {
            *counters.entry(k).or_insert(0) += v;
        }
        for (c, v) in r.failures {
            failures.push((i as u64, c, v));
        }
        harness_errors.extend(r.harness_errors);
        if let Some(s) = r.sample {
            if samples.len() < 6 || (i % 997 == 0 && samples.len() < 12) {
                samples.push(s);
            }
        }
        sim_nanos += r.sim_nanos;
        digest = rng::fnv(format!("{digest:016x}{:016x}", r.digest).as_bytes());
    }
    let explore_wall = started.elapsed().as_secs_f64();

    // triage: known findings vs violations
    let mut known_met: BTreeMap<String, (u64, String)> = BTreeMap::new();
    let mut unknown: Vec<(u64, Case, Violation)> = Vec::new();
    for (i, c, v) in failures {
        if v.prop != prop {
            continue;
        }
        if let Some(k) = known.iter().find(|k| known::matches(k, &c, &v)) {
            let e = known_met.entry(k.id.clone()).or_insert((0, String::new()));
            e.0 += 1;
            if e.1.is_empty() {
                e.1 = format!(
                    "{} class={} entry={} truth={} {} :: first met in unit {i}: {}",
                    k.id,
                    k.class,
                    if v.entry.is_empty() { "-" } else { &v.entry },
                    if v.truth.is_empty() { "-" } else { &v.truth },
                    k.tag.as_ref().map(|t| format!("tag={t}")).unwrap_or_default(),
                    k.text
                );
            }
        } else {
            if std::env::var("VERIF_DUMP_UNKNOWN").is_ok() {
                // triage aid (never set by the registered commands)
                eprintln!("UNKNOWN unit {i} {} :: {}", v.class, serde_json::to_string(&c).unwrap_or_default());
            }
            unknown.push((i, c, v));
        }
    }
    for (_, (n, line)) in &known_met {
        println!("KNOWN-FINDING: property={prop} {line} (met {n} times in this run)");
    }

    let mut exit = 0;
    let mut violation_lines = 0u64;
    let mut reported_classes: HashSet<String> = HashSet::new();
    let distinct_classes: Vec<String> = {
        let mut seen = Vec::new();
        for (_, _, v) in &unknown {
            if !seen.contains(&v.class) {
                seen.push(v.class.clone());
            }
        }
        seen
    };
    for (i, c, v) in &unknown {
        if !reported_classes.insert(v.class.clone()) {
            continue;
        }
        if reported_classes.len() > 5 {
            break;
        }
        let (min_case, min_v, evals) = minimize::minimise(c, v, 4_000);
        let file = ReplayFile {
            property: prop.to_string(),
            verif_seed: seed,
            run_index: *i,
            violation: min_v.clone(),
            original_size: format!("{} -> {} after {evals} shrink evaluations", minimize::case_size(c), minimize::case_size(&min_case)),
            case: min_case.clone(),
        };
        let path = format!(
            "{}/replays/{prop}-{seed}-{i}-{}.json",
            verif_dir(),
            v.class.replace([':', '/', ' '], "_")
        );
        let _ = std::fs::create_dir_all(format!("{}/replays", verif_dir()));
        if let Err(e) = std::fs::write(&path, serde_json::to_string_pretty(&file).unwrap()) {
            harness_errors.push(format!("cannot write replay file {path}: {e}"));
            continue;
        }
        // the replay must reproduce in a fresh process
        let replay_ok = std::env::current_exe()
            .ok()
            .and_then(|exe| {
                std::process::Command::new(exe)
                    .args(["replay", &path])
                    .env("VERIF_REPLAY_QUIET", "1")
                    .output()
                    .ok()
            })
            .map(|o| {
                o.status.code() == Some(1)
                    && String::from_utf8_lossy(&o.stdout).contains(&format!("class={}", min_v.class))
            })
            .unwrap_or(false);
        if !replay_ok && min_v.class == "hang" {
            // the watchdog is the one wall-clock judgement in the harness: a genuine spin
            // reproduces in the fresh process (same 10 s watchdog); one that does not was a
            // starved thread on a loaded machine and is dropped, not reported
            eprintln!(
                "NOTE: watchdog fired in unit {i} but the replay in a fresh process finished in time (loaded machine); not a violation"
            );
            let _ = std::fs::remove_file(&path);
            continue;
        }
        if !replay_ok {
            harness_errors.push(format!(
                "replay of {path} in a fresh process did not reproduce class {}",
                min_v.class
            ));
            continue;
        }
        println!("VIOLATION property={prop} replay={path}");
        println!("  class={} unit={i} :: {}", min_v.class, min_v.detail);
        violation_lines += 1;
        exit = 1;
    }
    if !unknown.is_empty() {
        println!(
            "  ({} violating cases in total, classes: {:?})",
            unknown.len(),
            distinct_classes
        );
    }
    if !harness_errors.is_empty() {
        for e in harness_errors.iter().take(10) {
            eprintln!("HARNESS-ERROR: {e}");
        }
        // a violation that was minimised and reproduced in a fresh process stands on its
        // own: exit 2 is reserved for runs that found nothing they can vouch for
        if exit == 0 {
            exit = 2;
        }
    }

    // evidence
    let wall = started.elapsed().as_secs_f64();
    let fired: BTreeMap<&String, &u64> = counters
        .iter()
        .filter(|(k, _)| k.starts_with("fault"))
        .collect();
    let probes: BTreeMap<&String, &u64> = counters
        .iter()
        .filter(|(k, _)| k.starts_with("probe") || k.starts_with("skipped"))
        .collect();
    let other: BTreeMap<&String, &u64> = counters
        .iter()
        .filter(|(k, _)| !k.starts_with("fault") && !k.starts_with("probe") && !k.starts_with("skipped"))
        .collect();
    let evidence = json!({
        "property_id": prop,
        "tier": match tier { Tier::Quick => "quick", Tier::Thorough => "thorough" },
        "seed": seed,
        "level": level_of(prop),
        "coverage": {
            "evaluations": evaluations,
            "distinct_nontrivial": nontrivial.len(),
            "rule": rule_for(prop),
            "samples": samples,
            "exhaustive": false,
            "units": units,
            "simulated_runs_per_hour": if explore_wall > 0.0 { (evaluations as f64 / explore_wall * 3600.0) as u64 } else { 0 },
            "seeds_per_hour": if explore_wall > 0.0 { (units as f64 / explore_wall * 3600.0) as u64 } else { 0 },
            "simulated_time_covered_s": sim_nanos as f64 / 1e9,
            "fault_kinds_injected_and_fired": fired,
            "reach_probes": probes,
            "other_counters": other,
            "distinct_states_reached": states.len(),
            "distinct_states_measure": distinct_measure(prop),
            "components": components(),
            "known_findings_met": known_met.iter().map(|(k, v)| (k.clone(), v.0)).collect::<BTreeMap<_, _>>(),
            "run_digest": format!("{digest:016x}"),
            "worker_threads": threads,
        },
        "assumptions": [
            "the generated input class is small and dyadic/decimal so that the exact oracle decides it and no non-zero quantity sits inside a solver tolerance",
            "the exact oracle (integer enumeration + Fourier-Motzkin over i128 rationals) is correct; overflow panics and is reported as a harness error",
            "microlp's behaviour under a limit depends on the clock only through `now() >= deadline` (checked per run by the abstraction cross-check, exit 2 on mismatch)",
            "std::time::Instant reaches the kernel through the clock_gettime symbol (checked by `./check selftest`); a clock read by raw syscall or rdtsc would escape the seam",
        ],
        "wall_s": wall,
        "violations": violation_lines,
    });
    let _ = std::fs::create_dir_all(format!("{}/evidence", verif_dir()));
    let epath = format!("{}/evidence/{prop}.json", verif_dir());
    if let Err(e) = std::fs::write(&epath, serde_json::to_string_pretty(&evidence).unwrap()) {
        eprintln!("HARNESS-ERROR: cannot write {epath}: {e}");
        exit = 2;
    }
    println!(
        "done property={prop} units={units} evaluations={evaluations} distinct_nontrivial={} distinct_states={} wall={wall:.1}s digest={digest:016x} exit={exit}",
        nontrivial.len(),
        states.len()
    );
    CheckOutcome { exit }
}

fn replay(path: &str) -> i32 {
    let content = match std::fs::read_to_string(path) {
        Ok(c) => c,
        Err(e) => {
            eprintln!("HARNESS-ERROR: cannot read {path}: {e}");
            return 2;
        }
    };
    let file: ReplayFile = match serde_json::from_str(&content) {
        Ok(f) => f,
        Err(e) => {
            eprintln!("HARNESS-ERROR: cannot parse {path}: {e}");
            return 2;
        }
    };
    let vs = run_case(&file.case);
    let same: Vec<&Violation> = vs.iter().filter(|v| v.key() == file.violation.key()).collect();
    if let Some(v) = same.first() {
        println!("VIOLATION property={} replay={path}", file.property);
        println!("  class={} :: {}", v.class, v.detail);
        1
    } else {
        println!(
            "replay of {path}: recorded violation (class {}) did not occur; {} other violation(s)",
            file.violation.class,
            vs.len()
        );
        for v in &vs {
            println!("  other: property={} class={} :: {}", v.prop, v.class, v.detail);
        }
        0
    }
}

/// Determinism self-check: the same units in fresh processes at several worker counts must
/// give the same digest.
/// The clock seam must own `std::time::Instant` as well as `web_time::Instant` on a thread
/// with a schedule installed, and must leave every other thread on the real clock.
fn selftest_clock_seam() -> bool {
    use web_time::sim::{self, Schedule};
    let mut ok = true;
    let real0 = std::time::Instant::now();
    std::thread::sleep(std::time::Duration::from_millis(2));
    if real0.elapsed() < std::time::Duration::from_millis(2) {
        println!("clock seam: real clock not advancing outside a simulation");
        ok = false;
    }
    sim::install(Schedule::Frozen, 1000);
    let a = std::time::Instant::now();
    std::thread::sleep(std::time::Duration::from_millis(2));
    let b = std::time::Instant::now();
    let w = web_time::Instant::now();
    let rep = sim::uninstall();
    if b.duration_since(a) != std::time::Duration::ZERO || rep.std_reads != 2 || rep.reads != 3 {
        println!("clock seam: frozen schedule not seen by std::time ({:?}, {rep:?})", b.duration_since(a));
        ok = false;
    }
    let _ = w;
    sim::install(Schedule::JumpAt { k: 2, nanos: 5_000_000_000 }, 1000);
    let a = std::time::Instant::now();
    let b = std::time::Instant::now();
    let c = std::time::Instant::now();
    sim::uninstall();
    if b.duration_since(a) != std::time::Duration::from_secs(5) || c != b {
        println!("clock seam: jump schedule not seen by std::time");
        ok = false;
    }
    // another thread, no schedule: real clock even while this thread is simulated
    sim::install(Schedule::Frozen, 1000);
    let other = std::thread::spawn(|| {
        let t = std::time::Instant::now();
        std::thread::sleep(std::time::Duration::from_millis(2));
        t.elapsed()
    })
    .join()
    .unwrap();
    sim::uninstall();
    if other < std::time::Duration::from_millis(2) {
        println!("clock seam: simulation leaked to another thread");
        ok = false;
    }
    println!("clock seam (web_time + std::time through clock_gettime): {}", if ok { "ok" } else { "BROKEN" });
    ok
}

fn selftest_determinism() -> i32 {
    let exe = std::env::current_exe().unwrap();
    let mut ok = selftest_clock_seam();
    for prop in ["C15", "C04", "C05", "C14", "C07"] {
        let mut digests = Vec::new();
        for threads in ["1", "4", "16", "16"] {
            let out = std::process::Command::new(&exe)
                .args(["digest", prop])
                .env("VERIF_THREADS", threads)
                .output()
                .expect("spawn");
            let s = String::from_utf8_lossy(&out.stdout).to_string();
            digests.push(s.trim().to_string());
        }
        let same = digests.iter().all(|d| d == &digests[0] && !d.is_empty());
        println!("determinism {prop}: {} ({})", if same { "ok" } else { "MISMATCH" }, digests[0]);
        if !same {
            for d in &digests {
                println!("   {d}");
            }
            ok = false;
        }
    }
    if ok {
        0
    } else {
        eprintln!("HARNESS-ERROR: determinism self-check failed");
        2
    }
}

fn digest(prop: &str) {
    let seed: u64 = std::env::var("VERIF_SEED")
        .ok()
        .and_then(|s| s.parse().ok())
        .unwrap_or(DEFAULT_SEED);
    let threads: usize = std::env::var("VERIF_THREADS")
        .ok()
        .and_then(|s| s.parse().ok())
        .unwrap_or(4);
    let units: u64 = std::env::var("VERIF_UNITS")
        .ok()
        .and_then(|s| s.parse().ok())
        .unwrap_or(400);
    let reports = run_units(prop, seed, units, Tier::Quick, threads);
    let mut digest = 0u64;
    let mut evals = 0;
    for r in &reports {
        digest = rng::fnv(format!("{digest:016x}{:016x}", r.digest).as_bytes());
        evals += r.evaluations;
    }
    println!("{prop} units={units} evaluations={evals} digest={digest:016x}");
}

fn main() {
    let args: Vec<String> = std::env::args().collect();
    install_quiet_panic_hook();
    let code = match args.get(1).map(|s| s.as_str()) {
        Some("check") => {
            let prop = args.get(2).expect("property id");
            let tier = match args.get(3).map(|s| s.as_str()) {
                Some("thorough") => Tier::Thorough,
                _ => Tier::Quick,
            };
            check(prop, tier).exit
        }
        Some("replay") => replay(args.get(2).expect("replay file")),
        Some("selftest") => selftest_determinism(),
        Some("probe") => {
            // triage helper: every entry point on one model (JSON GenModel on stdin or file)
            let text = match args.get(2) {
                Some(p) => std::fs::read_to_string(p).expect("read model"),
                None => std::io::read_to_string(std::io::stdin()).expect("stdin"),
            };
            let m: model::GenModel = serde_json::from_str(&text).expect("GenModel JSON");
            println!("model: {m}");
            println!("exact: {:?}", oracle::decide(&m));
            match solvers::to_builder(&m).0.linearize() {
                Ok(lm) => println!("builder linearize():\n{lm}\n"),
                Err(e) => println!("builder linearize() failed: {e}"),
            }
            for e in solvers::ALL_ENTRIES {
                if !e.accepts(&m) {
                    continue;
                }
                let mut cfg = solvers::RunCfg::plain(e);
                cfg.budget = 400;
                if e.takes_options() {
                    cfg.limit = solvers::LimitSpec::HUGE;
                } else if e.microlp_backed() {
                    // guard: only call no-limit microlp entry points when the probe terminates
                    let mut p = solvers::RunCfg::plain(solvers::Entry::MilpWith);
                    p.limit = solvers::LimitSpec::HUGE;
                    p.budget = 400;
                    if matches!(solvers::run(&m, &p).outcome, solvers::Outcome::NoProgress { .. }) {
                        println!("{:45} skipped (liveness probe: NoProgress)", e.name());
                        continue;
                    }
                }
                let r = solvers::run(&m, &cfg);
                println!("{:45} reads={:3} {:?}", e.name(), r.clock.reads, r.outcome);
            }
            0
        }
        Some("show-unit") => {
            // triage helper: print the model / case a unit would explore (no solving)
            let prop = args.get(2).expect("property id");
            let index: u64 = args.get(3).expect("unit index").parse().expect("index");
            let seed: u64 = std::env::var("VERIF_SEED")
                .ok()
                .and_then(|s| s.parse().ok())
                .unwrap_or(DEFAULT_SEED);
            let unit_seed = rng::run_seed(seed, prop_world(prop), index);
            println!("{}", worlds::describe_unit(prop, unit_seed, index));
            0
        }
        Some("deep-probe") => {
            // experiment: how many B&B nodes does microlp need on a planted subset-sum model?
            let n: usize = args.get(2).and_then(|s| s.parse().ok()).unwrap_or(20);
            let seed: u64 = args.get(3).and_then(|s| s.parse().ok()).unwrap_or(1);
            let rows: usize = args.get(4).and_then(|s| s.parse().ok()).unwrap_or(1);
            let mut rng = rng::Rng::new(seed);
            let m = generate::gen_subset_sum(&mut rng, n, rows, true);
            let cfg = solvers::RunCfg {
                entry: solvers::Entry::MilpWith,
                gap: solvers::GapSpec::Unset,
                limit: solvers::LimitSpec::HUGE,
                sched: solvers::Sched::Frozen,
                budget: 0,
            };
            let t = Instant::now();
            let d = solvers::run_microlp_direct(&m, &cfg);
            println!(
                "n={n} rows={rows} seed={seed}: status={:?} nodes={} lp_iterations={} clock_reads={} wall={:.2}s",
                d.status,
                d.nodes,
                d.lp_iterations,
                d.reads,
                t.elapsed().as_secs_f64()
            );
            0
        }
        Some("digest") => {
            digest(args.get(2).expect("property id"));
            0
        }
        _ => {
            eprintln!("usage: rooc-sim check <C04|C05|C07|C14|C15> <quick|thorough> | replay <file> | selftest | digest <prop>");
            2
        }
    };
    // Leave without running exit handlers: sacrificial threads of the wall-clock watchdog
    // (only ever created against a changed tree) may still be spinning inside the code
    // under test, and tearing the process state down underneath them can crash.
    use std::io::Write;
    let _ = std::io::stdout().flush();
    let _ = std::io::stderr().flush();
    extern "C" {
        fn _exit(status: i32) -> !;
    }
    unsafe { _exit(code) }
}
