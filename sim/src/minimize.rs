//! Delta-debugging minimiser over explicit cases: a candidate is kept when the same
//! violation (property, class) still occurs. Every evaluation goes through `run_case`, so a
//! minimised case replays exactly.

use crate::bounds_world::{BoundsCase, Dec, SCon, SExp};
use crate::case::{run_case, Case, SolverCase, Violation};
use crate::model::{Dom, GenModel};
use crate::solvers::{GapSpec, LimitSpec, Sched};
use crate::tableau_world::{Op, TableauCase, TableauSource};

fn simpler_numbers(x: f64) -> Vec<f64> {
    let mut out = Vec::new();
    if x != 0.0 {
        out.push(0.0);
    }
    if x.abs() != 1.0 && x != 0.0 {
        out.push(x.signum());
    }
    if x != x.trunc() {
        out.push(x.trunc());
    }
    if x.abs() > 2.0 {
        out.push((x / 2.0).trunc());
    }
    out
}

fn model_candidates(m: &GenModel) -> Vec<GenModel> {
    let mut out = Vec::new();
    // drop a row
    for i in 0..m.rows.len() {
        let mut c = m.clone();
        c.rows.remove(i);
        out.push(c);
    }
    // drop a decoration
    for k in 0..m.decor.len() {
        let mut c = m.clone();
        c.decor.remove(k);
        out.push(c);
    }
    // drop a variable
    if m.n() > 1 {
        for j in 0..m.n() {
            out.push(m.without_var(j));
        }
    }
    // simplify domains
    for j in 0..m.n() {
        let alts: Vec<Dom> = match &m.vars[j].dom {
            Dom::Bool => vec![],
            Dom::Int { lo, hi } => {
                let mut a = vec![];
                if hi > lo {
                    a.push(Dom::Int { lo: *lo, hi: hi - 1 });
                    a.push(Dom::Int { lo: lo + 1, hi: *hi });
                }
                if (*lo, *hi) != (0, 1) {
                    a.push(Dom::Bool);
                }
                a
            }
            Dom::Real { lo, hi } => {
                let mut a = vec![Dom::NonNeg { lo: 0.0, hi: None }];
                if lo.is_some() || hi.is_some() {
                    a.push(Dom::Real { lo: None, hi: None });
                }
                if lo.is_some() {
                    a.push(Dom::Real { lo: None, hi: *hi });
                }
                if hi.is_some() {
                    a.push(Dom::Real { lo: *lo, hi: None });
                }
                a
            }
            Dom::NonNeg { lo, hi } => {
                let mut a = vec![];
                if *lo != 0.0 || hi.is_some() {
                    a.push(Dom::NonNeg { lo: 0.0, hi: None });
                }
                if hi.is_some() {
                    a.push(Dom::NonNeg { lo: *lo, hi: None });
                }
                a
            }
        };
        for d in alts {
            let mut c = m.clone();
            c.vars[j].dom = d;
            out.push(c);
        }
    }
    // simplify numbers
    for i in 0..m.rows.len() {
        for j in 0..m.n() {
            for v in simpler_numbers(m.rows[i].coefs[j]) {
                let mut c = m.clone();
                c.rows[i].coefs[j] = v;
                out.push(c);
            }
        }
        for v in simpler_numbers(m.rows[i].rhs) {
            let mut c = m.clone();
            c.rows[i].rhs = v;
            out.push(c);
        }
        if !m.rows[i].name.is_empty() {
            let mut c = m.clone();
            c.rows[i].name = String::new();
            out.push(c);
        }
    }
    for j in 0..m.n() {
        for v in simpler_numbers(m.obj[j]) {
            let mut c = m.clone();
            c.obj[j] = v;
            out.push(c);
        }
    }
    for v in simpler_numbers(m.offset) {
        let mut c = m.clone();
        c.offset = v;
        out.push(c);
    }
    out.retain(|c| c.well_formed());
    out
}

fn solver_candidates(c: &SolverCase) -> Vec<Case> {
    let mut out = Vec::new();
    // fewer runs first
    if c.runs.len() > 1 {
        for i in 0..c.runs.len() {
            let mut d = c.clone();
            d.runs.remove(i);
            out.push(Case::Solver(d));
        }
    }
    for m in model_candidates(&c.model) {
        let mut d = c.clone();
        d.model = m;
        out.push(Case::Solver(d));
    }
    for i in 0..c.runs.len() {
        let r = &c.runs[i];
        let mut alts = Vec::new();
        if r.gap != GapSpec::Unset {
            alts.push({
                let mut x = *r;
                x.gap = GapSpec::Unset;
                x
            });
        }
        match r.sched {
            Sched::ExpireAt { k } if k > 1 => {
                for nk in [1, k / 2, k - 1] {
                    if nk >= 1 && nk != k {
                        let mut x = *r;
                        x.sched = Sched::ExpireAt { k: nk };
                        alts.push(x);
                    }
                }
            }
            Sched::Ticks { .. } | Sched::JumpAt { .. } => {
                let mut x = *r;
                x.sched = Sched::Frozen;
                alts.push(x);
            }
            _ => {}
        }
        if let LimitSpec::Dur { secs, nanos } = r.limit {
            if (secs, nanos) != (1, 0) && (secs, nanos) != (0, 0) {
                let mut x = *r;
                x.limit = LimitSpec::Dur { secs: 1, nanos: 0 };
                alts.push(x);
            }
        }
        for a in alts {
            let mut d = c.clone();
            d.runs[i] = a;
            out.push(Case::Solver(d));
        }
    }
    out
}

fn tableau_candidates(c: &TableauCase) -> Vec<Case> {
    let mut out = Vec::new();
    for i in 0..c.ops.len() {
        let mut d = c.clone();
        d.ops.remove(i);
        out.push(Case::Tableau(d));
    }
    if c.prefixes && !c.ops.is_empty() {
        let mut d = c.clone();
        d.prefixes = false;
        out.push(Case::Tableau(d));
    }
    for (i, op) in c.ops.iter().enumerate() {
        let simpler: Vec<Op> = match op {
            Op::Step { prefer } if !prefer.is_empty() => vec![Op::Step { prefer: vec![] }],
            Op::SolveAvoiding { limit, prefer } => {
                let mut v = vec![Op::Solve { limit: *limit }];
                if !prefer.is_empty() {
                    v.push(Op::SolveAvoiding {
                        limit: *limit,
                        prefer: vec![],
                    });
                }
                if *limit > 1 {
                    v.push(Op::SolveAvoiding {
                        limit: limit / 2,
                        prefer: prefer.clone(),
                    });
                }
                v
            }
            Op::Solve { limit } if *limit > 1 => vec![Op::Solve { limit: limit / 2 }],
            Op::SolveStepByStep { limit } => {
                let mut v = vec![Op::Solve { limit: *limit }];
                if *limit > 1 {
                    v.push(Op::SolveStepByStep { limit: limit / 2 });
                }
                v
            }
            _ => vec![],
        };
        for s in simpler {
            let mut d = c.clone();
            d.ops[i] = s;
            out.push(Case::Tableau(d));
        }
    }
    match &c.source {
        TableauSource::Model(m) => {
            for m2 in model_candidates(m) {
                if m2.is_continuous() {
                    let mut d = c.clone();
                    d.source = TableauSource::Model(m2);
                    out.push(Case::Tableau(d));
                }
            }
        }
        TableauSource::Canonical {
            c: cost,
            a,
            b,
            basis,
            value,
        } => {
            // drop a non-basic column
            for j in 0..cost.len() {
                if basis.contains(&j) {
                    continue;
                }
                let mut cost2 = cost.clone();
                cost2.remove(j);
                let a2: Vec<Vec<f64>> = a
                    .iter()
                    .map(|r| {
                        let mut r = r.clone();
                        r.remove(j);
                        r
                    })
                    .collect();
                let basis2: Vec<usize> = basis.iter().map(|x| if *x > j { x - 1 } else { *x }).collect();
                let mut d = c.clone();
                d.source = TableauSource::Canonical {
                    c: cost2,
                    a: a2,
                    b: b.clone(),
                    basis: basis2,
                    value: *value,
                };
                d.ops = d
                    .ops
                    .into_iter()
                    .map(|op| match op {
                        Op::Step { .. } => Op::Step { prefer: vec![] },
                        Op::SolveAvoiding { limit, .. } => Op::SolveAvoiding {
                            limit,
                            prefer: vec![],
                        },
                        o => o,
                    })
                    .collect();
                out.push(Case::Tableau(d));
            }
            // simplify entries
            for i in 0..a.len() {
                for j in 0..cost.len() {
                    if basis.contains(&j) {
                        continue;
                    }
                    for v in simpler_numbers(a[i][j]) {
                        let mut a2 = a.clone();
                        a2[i][j] = v;
                        let mut d = c.clone();
                        d.source = TableauSource::Canonical {
                            c: cost.clone(),
                            a: a2,
                            b: b.clone(),
                            basis: basis.clone(),
                            value: *value,
                        };
                        out.push(Case::Tableau(d));
                    }
                }
                for v in simpler_numbers(b[i]) {
                    if v < 0.0 {
                        continue;
                    }
                    let mut b2 = b.clone();
                    b2[i] = v;
                    let mut d = c.clone();
                    d.source = TableauSource::Canonical {
                        c: cost.clone(),
                        a: a.clone(),
                        b: b2,
                        basis: basis.clone(),
                        value: *value,
                    };
                    out.push(Case::Tableau(d));
                }
            }
            for j in 0..cost.len() {
                if basis.contains(&j) {
                    continue;
                }
                for v in simpler_numbers(cost[j]) {
                    let mut c2 = cost.clone();
                    c2[j] = v;
                    let mut d = c.clone();
                    d.source = TableauSource::Canonical {
                        c: c2,
                        a: a.clone(),
                        b: b.clone(),
                        basis: basis.clone(),
                        value: *value,
                    };
                    out.push(Case::Tableau(d));
                }
            }
        }
        TableauSource::Phase1 { a, b } => {
            if a.len() > 1 {
                for i in 0..a.len() {
                    let mut a2 = a.clone();
                    let mut b2 = b.clone();
                    a2.remove(i);
                    b2.remove(i);
                    let mut d = c.clone();
                    d.source = TableauSource::Phase1 { a: a2, b: b2 };
                    d.ops.retain(|op| !matches!(op, Op::Step { prefer } | Op::SolveAvoiding { prefer, .. } if !prefer.is_empty()));
                    out.push(Case::Tableau(d));
                }
            }
            for i in 0..a.len() {
                for j in 0..a[i].len() {
                    for v in simpler_numbers(a[i][j]) {
                        let mut a2 = a.clone();
                        a2[i][j] = v;
                        let mut d = c.clone();
                        d.source = TableauSource::Phase1 { a: a2, b: b.clone() };
                        out.push(Case::Tableau(d));
                    }
                }
                for v in simpler_numbers(b[i]) {
                    if v >= 0.0 {
                        let mut b2 = b.clone();
                        b2[i] = v;
                        let mut d = c.clone();
                        d.source = TableauSource::Phase1 { a: a.clone(), b: b2 };
                        out.push(Case::Tableau(d));
                    }
                }
            }
        }
    }
    out
}

fn sexp_candidates(e: &SExp) -> Vec<SExp> {
    // replace a node by one of its children, or simplify a constant
    let mut out = Vec::new();
    match e {
        SExp::Num(d) => {
            if d.d != 1 {
                out.push(SExp::Num(Dec::int(d.n / d.d)));
            }
            if d.n != 0 && d.n != d.d {
                out.push(SExp::Num(Dec::int(0)));
                out.push(SExp::Num(Dec::int(1)));
            }
        }
        SExp::Var(_) => {}
        SExp::Add(l, r) | SExp::Sub(l, r) => {
            out.push((**l).clone());
            out.push((**r).clone());
            for l2 in sexp_candidates(l) {
                out.push(match e {
                    SExp::Add(..) => SExp::Add(Box::new(l2), r.clone()),
                    _ => SExp::Sub(Box::new(l2), r.clone()),
                });
            }
            for r2 in sexp_candidates(r) {
                out.push(match e {
                    SExp::Add(..) => SExp::Add(l.clone(), Box::new(r2)),
                    _ => SExp::Sub(l.clone(), Box::new(r2)),
                });
            }
        }
        SExp::MulL(c, x) => {
            out.push((**x).clone());
            if c.d != 1 {
                out.push(SExp::MulL(Dec::int((c.n / c.d).max(1)), x.clone()));
            }
            for x2 in sexp_candidates(x) {
                out.push(SExp::MulL(*c, Box::new(x2)));
            }
        }
        SExp::MulR(x, c) => {
            out.push((**x).clone());
            out.push(SExp::MulL(*c, x.clone()));
            for x2 in sexp_candidates(x) {
                out.push(SExp::MulR(Box::new(x2), *c));
            }
        }
        SExp::Div(x, c) => {
            out.push((**x).clone());
            for x2 in sexp_candidates(x) {
                out.push(SExp::Div(Box::new(x2), *c));
            }
        }
        SExp::Logic2(_, l, r) => {
            // (operands are Boolean variables: replacing the node by one keeps the 0/1 type)
            out.push((**l).clone());
            out.push((**r).clone());
        }
        SExp::Neg(x) | SExp::Abs(x) | SExp::Not(x) => {
            if !matches!(e, SExp::Not(_)) {
                out.push((**x).clone());
            }
            for x2 in sexp_candidates(x) {
                out.push(match e {
                    SExp::Neg(_) => SExp::Neg(Box::new(x2)),
                    SExp::Abs(_) => SExp::Abs(Box::new(x2)),
                    _ => SExp::Not(Box::new(x2)),
                });
            }
        }
        SExp::Min(es) | SExp::Max(es) | SExp::And(es) | SExp::Or(es) => {
            let rebuild = |v: Vec<SExp>| match e {
                SExp::Min(_) => SExp::Min(v),
                SExp::Max(_) => SExp::Max(v),
                SExp::And(_) => SExp::And(v),
                _ => SExp::Or(v),
            };
            if matches!(e, SExp::Min(_) | SExp::Max(_)) {
                for x in es {
                    out.push(x.clone());
                }
            }
            if es.len() > 1 {
                for i in 0..es.len() {
                    let mut v = es.clone();
                    v.remove(i);
                    out.push(rebuild(v));
                }
            }
            for i in 0..es.len() {
                for x2 in sexp_candidates(&es[i]) {
                    let mut v = es.clone();
                    v[i] = x2;
                    out.push(rebuild(v));
                }
            }
        }
    }
    out
}

fn bounds_candidates(c: &BoundsCase) -> Vec<Case> {
    let mut out = Vec::new();
    let m = &c.model;
    for i in 0..m.cons.len() {
        let mut d = c.clone();
        d.model.cons.remove(i);
        out.push(Case::Bounds(d));
    }
    if let Some(k) = c.k {
        for nk in [0, k / 2, k.saturating_sub(1)] {
            if nk != k {
                let mut d = c.clone();
                d.k = Some(nk);
                out.push(Case::Bounds(d));
            }
        }
    }
    for i in 0..m.cons.len() {
        for l2 in sexp_candidates(&m.cons[i].lhs) {
            let mut d = c.clone();
            d.model.cons[i] = SCon {
                lhs: l2,
                ..m.cons[i].clone()
            };
            out.push(Case::Bounds(d));
        }
        for r2 in sexp_candidates(&m.cons[i].rhs) {
            let mut d = c.clone();
            d.model.cons[i] = SCon {
                rhs: r2,
                ..m.cons[i].clone()
            };
            out.push(Case::Bounds(d));
        }
    }
    for j in 0..m.vars.len() {
        let alts: Vec<Dom> = match &m.vars[j].dom {
            Dom::Bool => vec![],
            Dom::Int { lo, hi } if hi > lo => vec![
                Dom::Int { lo: *lo, hi: hi - 1 },
                Dom::Int { lo: lo + 1, hi: *hi },
            ],
            Dom::Int { .. } => vec![],
            Dom::Real { lo, hi } => {
                let mut a = vec![];
                if lo.is_some() {
                    a.push(Dom::Real { lo: None, hi: *hi });
                }
                if hi.is_some() {
                    a.push(Dom::Real { lo: *lo, hi: None });
                }
                a
            }
            Dom::NonNeg { hi, .. } => {
                if hi.is_some() {
                    vec![Dom::NonNeg { lo: 0.0, hi: None }]
                } else {
                    vec![]
                }
            }
        };
        for dm in alts {
            let mut d = c.clone();
            d.model.vars[j].dom = dm;
            out.push(Case::Bounds(d));
        }
    }
    out.retain(|c| match c {
        Case::Bounds(b) => b.model.well_formed(),
        _ => true,
    });
    out
}

pub fn case_size(c: &Case) -> String {
    match c {
        Case::Solver(s) => format!(
            "{} vars, {} rows, {} runs",
            s.model.n(),
            s.model.rows.len(),
            s.runs.len()
        ),
        Case::Tableau(t) => format!("{} ops, source {}", t.ops.len(), match &t.source {
            TableauSource::Model(m) => format!("model {}x{}", m.rows.len(), m.n()),
            TableauSource::Canonical { a, c, .. } => format!("canonical {}x{}", a.len(), c.len()),
            TableauSource::Phase1 { a, .. } => format!("phase1 {}x{}", a.len(), a.first().map_or(0, |r| r.len())),
        }),
        Case::Bounds(b) => format!(
            "{} vars, {} constraints, budget {:?}",
            b.model.vars.len(),
            b.model.cons.len(),
            b.k
        ),
    }
}

fn measure(c: &Case) -> usize {
    serde_json::to_string(c).map(|s| s.len()).unwrap_or(usize::MAX)
}

/// Shrinks `case` while a violation with the same (property, class) persists.
pub fn minimise(case: &Case, target: &Violation, max_evals: usize) -> (Case, Violation, usize) {
    let key = target.key();
    let mut best = case.clone();
    let mut best_v = target.clone();
    let mut evals = 0usize;
    // wall-clock cap on shrinking only (deep-search cases cost seconds per evaluation); it
    // can make the reported case larger, never change whether a violation is reported
    let started = std::time::Instant::now();
    loop {
        let mut improved = false;
        let cands = match &best {
            Case::Solver(c) => solver_candidates(c),
            Case::Tableau(c) => tableau_candidates(c),
            Case::Bounds(c) => bounds_candidates(c),
        };
        let current = measure(&best);
        for cand in cands {
            if evals >= max_evals || started.elapsed().as_secs() > 120 {
                return (best, best_v, evals);
            }
            if measure(&cand) >= current {
                continue;
            }
            evals += 1;
            if !crate::case::hang_safe(&cand) {
                continue;
            }
            let vs = std::panic::catch_unwind(std::panic::AssertUnwindSafe(|| run_case(&cand)))
                .unwrap_or_default();
            if let Some(v) = vs.into_iter().find(|v| v.key() == key) {
                best = cand;
                best_v = v;
                improved = true;
                break;
            }
        }
        if !improved {
            return (best, best_v, evals);
        }
    }
}
