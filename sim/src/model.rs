//! The harness's own description of a linear / mixed-integer model. Everything the
//! oracle judges is derived from this structure, never from a rooc `LinearModel`.

use crate::q::Q;
use serde::{Deserialize, Serialize};
use std::fmt;

#[derive(Clone, Debug, PartialEq, Serialize, Deserialize)]
pub enum Dom {
    Bool,
    Int { lo: i32, hi: i32 },
    /// `Real(lo, hi)`; `None` = infinite on that side.
    Real { lo: Option<f64>, hi: Option<f64> },
    /// `NonNegativeReal(lo, hi)` with `lo >= 0`.
    NonNeg { lo: f64, hi: Option<f64> },
}

impl Dom {
    pub fn is_integer(&self) -> bool {
        matches!(self, Dom::Bool | Dom::Int { .. })
    }
    pub fn int_range(&self) -> Option<(i64, i64)> {
        match self {
            Dom::Bool => Some((0, 1)),
            Dom::Int { lo, hi } => Some((*lo as i64, *hi as i64)),
            _ => None,
        }
    }
    /// Bounds as floats (infinite when absent).
    pub fn bounds_f64(&self) -> (f64, f64) {
        match self {
            Dom::Bool => (0.0, 1.0),
            Dom::Int { lo, hi } => (*lo as f64, *hi as f64),
            Dom::Real { lo, hi } => (
                lo.unwrap_or(f64::NEG_INFINITY),
                hi.unwrap_or(f64::INFINITY),
            ),
            Dom::NonNeg { lo, hi } => (*lo, hi.unwrap_or(f64::INFINITY)),
        }
    }
    pub fn bounds_q(&self) -> (Option<Q>, Option<Q>) {
        match self {
            Dom::Bool => (Some(Q::ZERO), Some(Q::ONE)),
            Dom::Int { lo, hi } => (Some(Q::int(*lo as i64)), Some(Q::int(*hi as i64))),
            Dom::Real { lo, hi } => (lo.map(Q::from_f64), hi.map(Q::from_f64)),
            Dom::NonNeg { lo, hi } => (Some(Q::from_f64(*lo)), hi.map(Q::from_f64)),
        }
    }
    pub fn is_free(&self) -> bool {
        matches!(self, Dom::Real { lo: None, hi: None })
    }
}

#[derive(Clone, Copy, Debug, PartialEq, Eq, Serialize, Deserialize)]
pub enum Cmp {
    Le,
    Ge,
    Eq,
}

#[derive(Clone, Copy, Debug, PartialEq, Eq, Serialize, Deserialize)]
pub enum Sense {
    Min,
    Max,
    Satisfy,
}

#[derive(Clone, Debug, PartialEq, Serialize, Deserialize)]
pub struct Var {
    pub name: String,
    pub dom: Dom,
}

#[derive(Clone, Debug, PartialEq, Serialize, Deserialize)]
pub struct Row {
    /// Empty = unnamed.
    pub name: String,
    pub coefs: Vec<f64>,
    pub cmp: Cmp,
    pub rhs: f64,
}

/// A constraint with a piecewise-linear operator in it that every point inside the declared
/// variable ranges satisfies. The builder entry points state it next to the rows, so the
/// linear model the builder compiles and solves carries auxiliary columns (`$abs_k`,
/// `$max_k`, selector binaries) of the linearizer's own making; the exact answer of the
/// model is untouched. The direct entry points are given the rows alone.
#[derive(Clone, Debug, PartialEq, Serialize, Deserialize)]
pub enum Decor {
    /// `abs(x_i - x_j) <= bound`
    AbsLe { i: usize, j: usize, bound: f64 },
    /// `max { x_i, x_j } >= bound`
    MaxGe { i: usize, j: usize, bound: f64 },
    /// `min { x_i, x_j } <= bound`
    MinLe { i: usize, j: usize, bound: f64 },
}

impl Decor {
    pub fn vars(&self) -> (usize, usize) {
        match self {
            Decor::AbsLe { i, j, .. } | Decor::MaxGe { i, j, .. } | Decor::MinLe { i, j, .. } => {
                (*i, *j)
            }
        }
    }
    /// Implied by the variable ranges alone?
    pub fn redundant_in(&self, vars: &[Var]) -> bool {
        let (i, j) = self.vars();
        if i >= vars.len() || j >= vars.len() || i == j {
            return false;
        }
        let (li, hi) = vars[i].dom.bounds_f64();
        let (lj, hj) = vars[j].dom.bounds_f64();
        if ![li, hi, lj, hj].iter().all(|x| x.is_finite()) {
            return false;
        }
        match self {
            Decor::AbsLe { bound, .. } => bound.is_finite() && *bound >= (hi - lj).max(hj - li),
            Decor::MaxGe { bound, .. } => bound.is_finite() && *bound <= li.max(lj),
            Decor::MinLe { bound, .. } => bound.is_finite() && *bound >= hi.min(hj),
        }
    }
    /// Introduces selector binaries (the compiled model is then not an LP).
    pub fn needs_binaries(&self) -> bool {
        !matches!(self, Decor::AbsLe { .. })
    }
    fn reindexed_without(&self, removed: usize) -> Option<Decor> {
        let (i, j) = self.vars();
        if i == removed || j == removed {
            return None;
        }
        let f = |k: usize| if k > removed { k - 1 } else { k };
        Some(match self {
            Decor::AbsLe { bound, .. } => Decor::AbsLe { i: f(i), j: f(j), bound: *bound },
            Decor::MaxGe { bound, .. } => Decor::MaxGe { i: f(i), j: f(j), bound: *bound },
            Decor::MinLe { bound, .. } => Decor::MinLe { i: f(i), j: f(j), bound: *bound },
        })
    }
}

#[derive(Clone, Debug, PartialEq, Serialize, Deserialize)]
pub struct GenModel {
    pub vars: Vec<Var>,
    pub rows: Vec<Row>,
    pub obj: Vec<f64>,
    pub offset: f64,
    pub sense: Sense,
    #[serde(default, skip_serializing_if = "Vec::is_empty")]
    pub decor: Vec<Decor>,
}

impl GenModel {
    pub fn n(&self) -> usize {
        self.vars.len()
    }
    pub fn is_continuous(&self) -> bool {
        self.vars.iter().all(|v| !v.dom.is_integer())
    }
    /// Continuous also after the builder has compiled the decorations.
    pub fn is_continuous_through_builder(&self) -> bool {
        self.is_continuous() && self.decor.iter().all(|d| !d.needs_binaries())
    }
    /// The model without variable `j` (decorations that mention it go too).
    pub fn without_var(&self, j: usize) -> GenModel {
        let mut c = self.clone();
        c.vars.remove(j);
        c.obj.remove(j);
        for r in &mut c.rows {
            r.coefs.remove(j);
        }
        c.decor = self.decor.iter().filter_map(|d| d.reindexed_without(j)).collect();
        c
    }
    pub fn int_points(&self) -> u64 {
        self.vars
            .iter()
            .filter_map(|v| v.dom.int_range())
            .map(|(lo, hi)| (hi - lo + 1).max(0) as u64)
            .fold(1u64, |a, b| a.saturating_mul(b))
    }
    pub fn num_continuous(&self) -> usize {
        self.vars.iter().filter(|v| !v.dom.is_integer()).count()
    }
    /// Objective coefficients the solvers see (`Satisfy` carries zeros).
    pub fn effective_obj(&self) -> Vec<f64> {
        match self.sense {
            Sense::Satisfy => vec![0.0; self.n()],
            _ => self.obj.clone(),
        }
    }
    /// Objective at a float point (including the offset).
    pub fn objective_at(&self, x: &[f64]) -> f64 {
        self.effective_obj()
            .iter()
            .zip(x)
            .map(|(c, v)| c * v)
            .sum::<f64>()
            + self.offset
    }
    /// Constant term of the objective as a front door sees it: `ModelBuilder::satisfy()`
    /// takes no expression, so through the builder a feasibility model has no offset.
    pub fn offset_as_seen_by(&self, builder: bool) -> f64 {
        if builder && self.sense == Sense::Satisfy {
            0.0
        } else {
            self.offset
        }
    }

    /// Scale against which objective values are compared: a solver that places each
    /// variable to within its own tolerance is off in the objective by that tolerance times
    /// the size of the objective's coefficients, whatever the size of the optimum itself.
    pub fn value_scale(&self) -> f64 {
        self.effective_obj().iter().fold(1.0f64, |a, c| a.max(c.abs()))
    }

    pub fn row_activity(&self, row: usize, x: &[f64]) -> f64 {
        self.rows[row]
            .coefs
            .iter()
            .zip(x)
            .map(|(c, v)| c * v)
            .sum::<f64>()
    }
    /// A structural well-formedness check used by the generator and the minimiser so that
    /// neither ever produces a model outside the property's input class.
    pub fn well_formed(&self) -> bool {
        let n = self.n();
        if self.obj.len() != n || !self.offset.is_finite() {
            return false;
        }
        // (a feasibility objective may carry a constant: the text front end produces one;
        // the builder cannot express it, which `objective_as_seen_by` accounts for)
        let mut names = std::collections::BTreeSet::new();
        for v in &self.vars {
            if !names.insert(v.name.clone()) {
                return false;
            }
            match &v.dom {
                Dom::Bool => {}
                Dom::Int { lo, hi } => {
                    if lo > hi {
                        return false;
                    }
                }
                Dom::Real { lo, hi } => {
                    if let (Some(l), Some(h)) = (lo, hi) {
                        if l > h {
                            return false;
                        }
                    }
                    if lo.is_some_and(|x| !x.is_finite()) || hi.is_some_and(|x| !x.is_finite()) {
                        return false;
                    }
                }
                Dom::NonNeg { lo, hi } => {
                    if !(*lo >= 0.0) || !lo.is_finite() {
                        return false;
                    }
                    if let Some(h) = hi {
                        if !h.is_finite() || lo > h {
                            return false;
                        }
                    }
                }
            }
        }
        for r in &self.rows {
            if r.coefs.len() != n || !r.rhs.is_finite() || r.coefs.iter().any(|c| !c.is_finite()) {
                return false;
            }
        }
        if !self.decor.iter().all(|d| d.redundant_in(&self.vars)) {
            return false;
        }
        let mut row_names = std::collections::BTreeSet::new();
        for r in &self.rows {
            if !r.name.is_empty() && !row_names.insert(r.name.clone()) {
                return false;
            }
        }
        self.obj.iter().all(|c| c.is_finite())
    }
}

fn fmt_num(x: f64) -> String {
    if x == x.trunc() && x.abs() < 1e15 {
        format!("{}", x as i64)
    } else {
        format!("{x}")
    }
}

fn fmt_lin(coefs: &[f64], vars: &[Var]) -> String {
    let mut s = String::new();
    for (c, v) in coefs.iter().zip(vars) {
        if *c == 0.0 {
            continue;
        }
        if s.is_empty() {
            if *c < 0.0 {
                s.push('-');
            }
        } else {
            s.push_str(if *c < 0.0 { " - " } else { " + " });
        }
        if c.abs() != 1.0 {
            s.push_str(&fmt_num(c.abs()));
        }
        s.push_str(&v.name);
    }
    if s.is_empty() {
        s.push('0');
    }
    s
}

impl fmt::Display for GenModel {
    fn fmt(&self, f: &mut fmt::Formatter<'_>) -> fmt::Result {
        let sense = match self.sense {
            Sense::Min => "min",
            Sense::Max => "max",
            Sense::Satisfy => "solve",
        };
        write!(f, "{sense} {}", fmt_lin(&self.effective_obj(), &self.vars))?;
        if self.offset != 0.0 {
            write!(f, " + {}", fmt_num(self.offset))?;
        }
        write!(f, " s.t. ")?;
        for (i, r) in self.rows.iter().enumerate() {
            if i > 0 {
                write!(f, "; ")?;
            }
            if !r.name.is_empty() {
                write!(f, "{}: ", r.name)?;
            }
            let op = match r.cmp {
                Cmp::Le => "<=",
                Cmp::Ge => ">=",
                Cmp::Eq => "=",
            };
            write!(f, "{} {op} {}", fmt_lin(&r.coefs, &self.vars), fmt_num(r.rhs))?;
        }
        for d in &self.decor {
            let (i, j) = d.vars();
            let (a, b) = (&self.vars[i].name, &self.vars[j].name);
            match d {
                Decor::AbsLe { bound, .. } => write!(f, "; [builder only] |{a} - {b}| <= {}", fmt_num(*bound))?,
                Decor::MaxGe { bound, .. } => write!(f, "; [builder only] max{{{a}, {b}}} >= {}", fmt_num(*bound))?,
                Decor::MinLe { bound, .. } => write!(f, "; [builder only] min{{{a}, {b}}} <= {}", fmt_num(*bound))?,
            }
        }
        write!(f, " define ")?;
        for (i, v) in self.vars.iter().enumerate() {
            if i > 0 {
                write!(f, ", ")?;
            }
            let b = |x: &Option<f64>, neg: bool| match x {
                Some(v) => fmt_num(*v),
                None => (if neg { "-inf" } else { "inf" }).to_string(),
            };
            match &v.dom {
                Dom::Bool => write!(f, "{}:Bool", v.name)?,
                Dom::Int { lo, hi } => write!(f, "{}:Int[{lo},{hi}]", v.name)?,
                Dom::Real { lo, hi } => {
                    write!(f, "{}:Real[{},{}]", v.name, b(lo, true), b(hi, false))?
                }
                Dom::NonNeg { lo, hi } => {
                    write!(f, "{}:NonNeg[{},{}]", v.name, fmt_num(*lo), b(hi, false))?
                }
            }
        }
        Ok(())
    }
}
