//! Exact reference: decides a `GenModel` in rational arithmetic. Integer variables are
//! enumerated over their (small) ranges; for each integer point the continuous part is
//! decided by equality substitution + Fourier–Motzkin elimination. Never looks at rooc.

use crate::model::{Cmp, GenModel, Sense};
use crate::q::Q;
use std::collections::BTreeMap;

#[derive(Clone, Copy, Debug, PartialEq, Eq)]
pub enum Verdict {
    Infeasible,
    Unbounded,
    Optimal(Q),
}

impl Verdict {
    pub fn tag(&self) -> &'static str {
        match self {
            Verdict::Infeasible => "Infeasible",
            Verdict::Unbounded => "Unbounded",
            Verdict::Optimal(_) => "Optimal",
        }
    }
}

#[derive(Clone, Copy, Debug)]
pub struct Decision {
    pub verdict: Verdict,
    pub int_points: u64,
    pub feasible_int_points: u64,
}

type LinQ = (Vec<Q>, Q);

/// A linear constraint over continuous variables: `a.x cmp b`.
#[derive(Clone, Debug)]
pub struct ConQ {
    pub a: Vec<Q>,
    pub cmp: Cmp,
    pub b: Q,
}

const FM_CAP: usize = 20_000;

fn normalise_ineq(a: &mut [Q], b: &mut Q) {
    if let Some(lead) = a.iter().find(|c| !c.is_zero()).copied() {
        let s = lead.abs();
        if s != Q::ONE {
            for c in a.iter_mut() {
                *c = c.div(s);
            }
            *b = b.div(s);
        }
    }
}

/// Extreme value of `obj.x` over `{x in R^n : cons, bounds}`; `maximize` picks the side.
pub fn lp_extreme(
    n: usize,
    cons: &[ConQ],
    bounds: &[(Option<Q>, Option<Q>)],
    obj: &[Q],
    maximize: bool,
) -> Verdict {
    let w = n + 1; // last column is z = obj.x
    let mut eqs: Vec<LinQ> = Vec::new();
    let mut ineqs: Vec<LinQ> = Vec::new();
    let widen = |a: &[Q]| {
        let mut v = a.to_vec();
        v.push(Q::ZERO);
        v
    };
    for c in cons {
        match c.cmp {
            Cmp::Eq => eqs.push((widen(&c.a), c.b)),
            Cmp::Le => ineqs.push((widen(&c.a), c.b)),
            Cmp::Ge => ineqs.push((widen(&c.a).iter().map(|x| x.neg()).collect(), c.b.neg())),
        }
    }
    for (j, (lo, hi)) in bounds.iter().enumerate() {
        if let (Some(l), Some(h)) = (lo, hi) {
            if l > h {
                return Verdict::Infeasible;
            }
            if l == h {
                let mut a = vec![Q::ZERO; w];
                a[j] = Q::ONE;
                eqs.push((a, *l));
                continue;
            }
        }
        if let Some(l) = lo {
            let mut a = vec![Q::ZERO; w];
            a[j] = Q::ONE.neg();
            ineqs.push((a, l.neg()));
        }
        if let Some(h) = hi {
            let mut a = vec![Q::ZERO; w];
            a[j] = Q::ONE;
            ineqs.push((a, *h));
        }
    }
    // z - obj.x = 0
    let mut zrow: Vec<Q> = obj.iter().map(|c| c.neg()).collect();
    zrow.push(Q::ONE);
    eqs.push((zrow, Q::ZERO));

    for j in 0..n {
        if let Some(pos) = eqs.iter().position(|(a, _)| !a[j].is_zero()) {
            let (ea, eb) = eqs.swap_remove(pos);
            let piv = ea[j];
            let apply = |t: &mut LinQ| {
                if t.0[j].is_zero() {
                    return;
                }
                let f = t.0[j].div(piv);
                for k in 0..w {
                    t.0[k] = t.0[k].sub(f.mul(ea[k]));
                }
                t.1 = t.1.sub(f.mul(eb));
            };
            eqs.iter_mut().for_each(apply);
            ineqs.iter_mut().for_each(apply);
        } else {
            let mut keep: BTreeMap<Vec<Q>, Q> = BTreeMap::new();
            let mut pos: Vec<LinQ> = Vec::new();
            let mut neg: Vec<LinQ> = Vec::new();
            let mut push = |keep: &mut BTreeMap<Vec<Q>, Q>, mut a: Vec<Q>, mut b: Q| -> bool {
                if a.iter().all(|c| c.is_zero()) {
                    return !b.is_neg();
                }
                normalise_ineq(&mut a, &mut b);
                keep.entry(a)
                    .and_modify(|old| {
                        if b < *old {
                            *old = b
                        }
                    })
                    .or_insert(b);
                true
            };
            for (a, b) in ineqs.drain(..) {
                if a[j].is_pos() {
                    pos.push((a, b));
                } else if a[j].is_neg() {
                    neg.push((a, b));
                } else if !push(&mut keep, a, b) {
                    return Verdict::Infeasible;
                }
            }
            for (pa, pb) in &pos {
                for (na, nb) in &neg {
                    let mp = na[j].neg(); // > 0
                    let mn = pa[j]; // > 0
                    let a: Vec<Q> = (0..w).map(|k| pa[k].mul(mp).add(na[k].mul(mn))).collect();
                    let b = pb.mul(mp).add(nb.mul(mn));
                    if !push(&mut keep, a, b) {
                        return Verdict::Infeasible;
                    }
                }
            }
            if keep.len() > FM_CAP {
                panic!("oracle: Fourier-Motzkin blow-up ({} inequalities)", keep.len());
            }
            ineqs = keep.into_iter().collect();
        }
    }
    // only z (column n) is left
    let mut lo: Option<Q> = None;
    let mut hi: Option<Q> = None;
    let mut tighten_lo = |lo: &mut Option<Q>, v: Q| {
        if lo.map_or(true, |l| v > l) {
            *lo = Some(v)
        }
    };
    let mut tighten_hi = |hi: &mut Option<Q>, v: Q| {
        if hi.map_or(true, |h| v < h) {
            *hi = Some(v)
        }
    };
    for (a, b) in &eqs {
        if a[n].is_zero() {
            if !b.is_zero() {
                return Verdict::Infeasible;
            }
        } else {
            let v = b.div(a[n]);
            tighten_lo(&mut lo, v);
            tighten_hi(&mut hi, v);
        }
    }
    for (a, b) in &ineqs {
        if a[n].is_zero() {
            if b.is_neg() {
                return Verdict::Infeasible;
            }
        } else if a[n].is_pos() {
            tighten_hi(&mut hi, b.div(a[n]));
        } else {
            tighten_lo(&mut lo, b.div(a[n]));
        }
    }
    if let (Some(l), Some(h)) = (lo, hi) {
        if l > h {
            return Verdict::Infeasible;
        }
    }
    match if maximize { hi } else { lo } {
        Some(v) => Verdict::Optimal(v),
        None => Verdict::Unbounded,
    }
}

/// Combines per-integer-point verdicts.
struct Fold {
    maximize: bool,
    best: Option<Q>,
    unbounded: bool,
    feasible_points: u64,
}

impl Fold {
    fn add(&mut self, v: Verdict) {
        match v {
            Verdict::Infeasible => {}
            Verdict::Unbounded => {
                self.unbounded = true;
                self.feasible_points += 1;
            }
            Verdict::Optimal(q) => {
                self.feasible_points += 1;
                self.best = Some(match self.best {
                    None => q,
                    Some(b) => {
                        if self.maximize {
                            b.max(q)
                        } else {
                            b.min(q)
                        }
                    }
                });
            }
        }
    }
    fn verdict(&self) -> Verdict {
        if self.unbounded {
            Verdict::Unbounded
        } else {
            match self.best {
                Some(q) => Verdict::Optimal(q),
                None => Verdict::Infeasible,
            }
        }
    }
}

/// Extreme value of `obj.x + offset` over the mixed-integer feasible set of `m`'s rows and
/// domains (the model's own objective and sense are ignored).
pub fn optimize(m: &GenModel, obj: &[Q], offset: Q, maximize: bool) -> Decision {
    let n = m.n();
    let int_idx: Vec<usize> = (0..n).filter(|i| m.vars[*i].dom.is_integer()).collect();
    let cont_idx: Vec<usize> = (0..n).filter(|i| !m.vars[*i].dom.is_integer()).collect();
    let nc = cont_idx.len();
    let rows_q: Vec<(Vec<Q>, Cmp, Q)> = m
        .rows
        .iter()
        .map(|r| {
            (
                r.coefs.iter().map(|c| Q::from_f64(*c)).collect(),
                r.cmp,
                Q::from_f64(r.rhs),
            )
        })
        .collect();
    let cont_bounds: Vec<(Option<Q>, Option<Q>)> =
        cont_idx.iter().map(|i| m.vars[*i].dom.bounds_q()).collect();
    let cont_obj: Vec<Q> = cont_idx.iter().map(|i| obj[*i]).collect();
    let ranges: Vec<(i64, i64)> = int_idx
        .iter()
        .map(|i| m.vars[*i].dom.int_range().unwrap())
        .collect();
    let mut fold = Fold {
        maximize,
        best: None,
        unbounded: false,
        feasible_points: 0,
    };
    let int_points = m.int_points();
    if ranges.iter().any(|(lo, hi)| lo > hi) {
        return Decision {
            verdict: Verdict::Infeasible,
            int_points: 0,
            feasible_int_points: 0,
        };
    }
    let mut point: Vec<i64> = ranges.iter().map(|r| r.0).collect();
    loop {
        // evaluate this integer point
        let mut cons: Vec<ConQ> = Vec::with_capacity(rows_q.len());
        let mut dead = false;
        for (a, cmp, b) in &rows_q {
            let mut rhs = *b;
            for (k, i) in int_idx.iter().enumerate() {
                if !a[*i].is_zero() {
                    rhs = rhs.sub(a[*i].mul(Q::int(point[k])));
                }
            }
            let ca: Vec<Q> = cont_idx.iter().map(|i| a[*i]).collect();
            if ca.iter().all(|c| c.is_zero()) {
                let ok = match cmp {
                    Cmp::Le => !rhs.is_neg(),
                    Cmp::Ge => !rhs.is_pos(),
                    Cmp::Eq => rhs.is_zero(),
                };
                if !ok {
                    dead = true;
                    break;
                }
            } else {
                cons.push(ConQ {
                    a: ca,
                    cmp: *cmp,
                    b: rhs,
                });
            }
        }
        if !dead {
            let mut base = offset;
            for (k, i) in int_idx.iter().enumerate() {
                if !obj[*i].is_zero() {
                    base = base.add(obj[*i].mul(Q::int(point[k])));
                }
            }
            let v = if nc == 0 {
                Verdict::Optimal(base)
            } else {
                match lp_extreme(nc, &cons, &cont_bounds, &cont_obj, maximize) {
                    Verdict::Optimal(q) => Verdict::Optimal(q.add(base)),
                    other => other,
                }
            };
            fold.add(v);
        }
        // odometer
        let mut k = 0;
        loop {
            if k == point.len() {
                return Decision {
                    verdict: fold.verdict(),
                    int_points,
                    feasible_int_points: fold.feasible_points,
                };
            }
            if point[k] < ranges[k].1 {
                point[k] += 1;
                break;
            }
            point[k] = ranges[k].0;
            k += 1;
        }
    }
}

/// Fast path for pure 0/1 feasibility models with integer data (the deep-search family):
/// Gray-code enumeration with incremental i64 row sums. `None` when the model is not of that
/// shape.
fn decide_binary_feasibility(m: &GenModel) -> Option<Decision> {
    use crate::model::Dom;
    let n = m.n();
    if !(13..=26).contains(&n)
        || !m.vars.iter().all(|v| v.dom == Dom::Bool)
        || m.effective_obj().iter().any(|c| *c != 0.0)
    {
        return None;
    }
    let integral = |x: f64| x == x.trunc() && x.abs() < 9.0e15;
    if !m.rows.iter().all(|r| integral(r.rhs) && r.coefs.iter().all(|c| integral(*c))) {
        return None;
    }
    let coefs: Vec<Vec<i64>> = m
        .rows
        .iter()
        .map(|r| r.coefs.iter().map(|c| *c as i64).collect())
        .collect();
    let rhs: Vec<i64> = m.rows.iter().map(|r| r.rhs as i64).collect();
    let ok = |sums: &[i64]| {
        m.rows.iter().enumerate().all(|(i, r)| match r.cmp {
            Cmp::Le => sums[i] <= rhs[i],
            Cmp::Ge => sums[i] >= rhs[i],
            Cmp::Eq => sums[i] == rhs[i],
        })
    };
    let mut sums = vec![0i64; m.rows.len()];
    let mut x = vec![false; n];
    let mut feasible = 0u64;
    if ok(&sums) {
        feasible += 1;
    }
    for step in 1u64..(1u64 << n) {
        let bit = step.trailing_zeros() as usize; // Gray code: flip this bit
        x[bit] = !x[bit];
        let sign = if x[bit] { 1 } else { -1 };
        for (i, row) in coefs.iter().enumerate() {
            sums[i] += sign * row[bit];
        }
        if ok(&sums) {
            feasible += 1;
        }
    }
    Some(Decision {
        verdict: if feasible > 0 {
            Verdict::Optimal(Q::from_f64(m.offset))
        } else {
            Verdict::Infeasible
        },
        int_points: 1u64 << n,
        feasible_int_points: feasible,
    })
}

/// Decides the model with its own objective and sense.
pub fn decide(m: &GenModel) -> Decision {
    if let Some(d) = decide_binary_feasibility(m) {
        return d;
    }
    let obj: Vec<Q> = m.effective_obj().iter().map(|c| Q::from_f64(*c)).collect();
    let offset = Q::from_f64(m.offset);
    match m.sense {
        Sense::Min | Sense::Satisfy => optimize(m, &obj, offset, false),
        Sense::Max => optimize(m, &obj, offset, true),
    }
}

#[cfg(test)]
mod tests {
    use super::*;
    use crate::model::*;

    fn v(name: &str, dom: Dom) -> Var {
        Var {
            name: name.into(),
            dom,
        }
    }

    #[test]
    fn small_lp() {
        // max x + 2y s.t. x + y <= 5, x,y >= 0  -> 10
        let m = GenModel {
            vars: vec![
                v("x", Dom::NonNeg { lo: 0.0, hi: None }),
                v("y", Dom::NonNeg { lo: 0.0, hi: None }),
            ],
            rows: vec![Row {
                name: "".into(),
                coefs: vec![1.0, 1.0],
                cmp: Cmp::Le,
                rhs: 5.0,
            }],
            obj: vec![1.0, 2.0],
            offset: 0.0,
            sense: Sense::Max,
            decor: Vec::new(),
        };
        assert_eq!(decide(&m).verdict, Verdict::Optimal(Q::int(10)));
        let mut m2 = m.clone();
        m2.sense = Sense::Min;
        assert_eq!(decide(&m2).verdict, Verdict::Optimal(Q::int(0)));
        let mut m3 = m.clone();
        m3.vars[1].dom = Dom::Real { lo: None, hi: None };
        m3.sense = Sense::Min;
        assert_eq!(decide(&m3).verdict, Verdict::Unbounded);
        let mut m4 = m.clone();
        m4.rows.push(Row {
            name: "".into(),
            coefs: vec![1.0, 1.0],
            cmp: Cmp::Ge,
            rhs: 6.0,
        });
        assert_eq!(decide(&m4).verdict, Verdict::Infeasible);
    }

    #[test]
    fn small_milp() {
        // min 3a + 4b s.t. a + 2b >= 5, 3a + b >= 4; a,b int [0,10] -> 11
        let m = GenModel {
            vars: vec![
                v("a", Dom::Int { lo: 0, hi: 10 }),
                v("b", Dom::Int { lo: 0, hi: 10 }),
            ],
            rows: vec![
                Row {
                    name: "".into(),
                    coefs: vec![1.0, 2.0],
                    cmp: Cmp::Ge,
                    rhs: 5.0,
                },
                Row {
                    name: "".into(),
                    coefs: vec![3.0, 1.0],
                    cmp: Cmp::Ge,
                    rhs: 4.0,
                },
            ],
            obj: vec![3.0, 4.0],
            offset: 0.5,
            sense: Sense::Min,
            decor: Vec::new(),
        };
        assert_eq!(decide(&m).verdict, Verdict::Optimal(Q::new(23, 2)));
    }
}
