//! Exact rationals over i128 with checked arithmetic. The generated data is small and
//! dyadic, so overflow never happens in practice; if it ever does the operation panics
//! with `Q overflow`, which the harness reports as a harness error (exit 2), never as a
//! verdict.

use std::cmp::Ordering;
use std::fmt;

#[derive(Clone, Copy, Debug)]
pub struct Q {
    n: i128,
    d: i128, // > 0, gcd(n, d) == 1
}

fn gcd(mut a: i128, mut b: i128) -> i128 {
    a = a.abs();
    b = b.abs();
    while b != 0 {
        let t = a % b;
        a = b;
        b = t;
    }
    a
}

fn ovf<T>(x: Option<T>) -> T {
    match x {
        Some(v) => v,
        None => panic!("Q overflow"),
    }
}

impl Q {
    pub const ZERO: Q = Q { n: 0, d: 1 };
    pub const ONE: Q = Q { n: 1, d: 1 };

    pub fn new(n: i128, d: i128) -> Q {
        assert!(d != 0, "Q zero denominator");
        let g = gcd(n, d);
        let (mut n, mut d) = if g == 0 { (0, 1) } else { (n / g, d / g) };
        if d < 0 {
            n = ovf(n.checked_neg());
            d = ovf(d.checked_neg());
        }
        Q { n, d }
    }

    pub fn int(n: i64) -> Q {
        Q { n: n as i128, d: 1 }
    }

    /// Exact conversion of a finite f64.
    pub fn from_f64(x: f64) -> Q {
        assert!(x.is_finite(), "Q::from_f64 of non-finite value");
        if x == 0.0 {
            return Q::ZERO;
        }
        let bits = x.to_bits();
        let sign: i128 = if bits >> 63 == 1 { -1 } else { 1 };
        let exp = ((bits >> 52) & 0x7ff) as i32;
        let frac = (bits & 0x000f_ffff_ffff_ffff) as i128;
        let (mut m, mut e) = if exp == 0 {
            (frac, -1074)
        } else {
            (frac | (1i128 << 52), exp - 1075)
        };
        while m % 2 == 0 && e < 0 {
            m /= 2;
            e += 1;
        }
        if e >= 0 {
            assert!(e < 70, "Q::from_f64 magnitude too large: {x}");
            Q::new(sign * ovf(m.checked_mul(1i128 << e)), 1)
        } else {
            assert!(-e < 120, "Q::from_f64 denominator too large: {x}");
            Q::new(sign * m, 1i128 << (-e))
        }
    }

    pub fn to_f64(self) -> f64 {
        self.n as f64 / self.d as f64
    }

    pub fn is_zero(self) -> bool {
        self.n == 0
    }
    pub fn is_neg(self) -> bool {
        self.n < 0
    }
    pub fn is_pos(self) -> bool {
        self.n > 0
    }
    pub fn is_integer(self) -> bool {
        self.d == 1
    }
    pub fn numer(self) -> i128 {
        self.n
    }
    pub fn denom(self) -> i128 {
        self.d
    }
    pub fn abs(self) -> Q {
        Q {
            n: self.n.abs(),
            d: self.d,
        }
    }
    pub fn neg(self) -> Q {
        Q {
            n: ovf(self.n.checked_neg()),
            d: self.d,
        }
    }
    pub fn add(self, o: Q) -> Q {
        let g = gcd(self.d, o.d);
        let l = ovf((self.d / g).checked_mul(o.d));
        let a = ovf(self.n.checked_mul(l / self.d));
        let b = ovf(o.n.checked_mul(l / o.d));
        Q::new(ovf(a.checked_add(b)), l)
    }
    pub fn sub(self, o: Q) -> Q {
        self.add(o.neg())
    }
    pub fn mul(self, o: Q) -> Q {
        let g1 = gcd(self.n, o.d).max(1);
        let g2 = gcd(o.n, self.d).max(1);
        let n = ovf((self.n / g1).checked_mul(o.n / g2));
        let d = ovf((self.d / g2).checked_mul(o.d / g1));
        Q::new(n, d)
    }
    pub fn div(self, o: Q) -> Q {
        assert!(o.n != 0, "Q division by zero");
        self.mul(Q::new(o.d, o.n))
    }
    pub fn min(self, o: Q) -> Q {
        if self <= o {
            self
        } else {
            o
        }
    }
    pub fn max(self, o: Q) -> Q {
        if self >= o {
            self
        } else {
            o
        }
    }
}

impl PartialEq for Q {
    fn eq(&self, o: &Q) -> bool {
        self.n == o.n && self.d == o.d
    }
}
impl Eq for Q {}
impl PartialOrd for Q {
    fn partial_cmp(&self, o: &Q) -> Option<Ordering> {
        Some(self.cmp(o))
    }
}
impl Ord for Q {
    fn cmp(&self, o: &Q) -> Ordering {
        let a = ovf(self.n.checked_mul(o.d));
        let b = ovf(o.n.checked_mul(self.d));
        a.cmp(&b)
    }
}
impl fmt::Display for Q {
    fn fmt(&self, f: &mut fmt::Formatter<'_>) -> fmt::Result {
        if self.d == 1 {
            write!(f, "{}", self.n)
        } else {
            write!(f, "{}/{}", self.n, self.d)
        }
    }
}
