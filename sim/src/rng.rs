//! The only source of randomness in the harness: xoshiro256** seeded through splitmix64.

#[derive(Clone, Debug)]
pub struct Rng {
    s: [u64; 4],
}

pub fn splitmix64(x: &mut u64) -> u64 {
    *x = x.wrapping_add(0x9e37_79b9_7f4a_7c15);
    let mut z = *x;
    z = (z ^ (z >> 30)).wrapping_mul(0xbf58_476d_1ce4_e5b9);
    z = (z ^ (z >> 27)).wrapping_mul(0x94d0_49bb_1331_11eb);
    z ^ (z >> 31)
}

/// FNV-1a over bytes; used to mix property names into seeds and to hash traces.
pub fn fnv(bytes: &[u8]) -> u64 {
    let mut h = 0xcbf2_9ce4_8422_2325u64;
    for b in bytes {
        h ^= *b as u64;
        h = h.wrapping_mul(0x0000_0100_0000_01b3);
    }
    h
}

/// Seed of run `index` of the check named `what` under master seed `verif_seed`.
pub fn run_seed(verif_seed: u64, what: &str, index: u64) -> u64 {
    let mut x = verif_seed ^ fnv(what.as_bytes()) ^ index.wrapping_mul(0xd6e8_feb8_6659_fd93);
    splitmix64(&mut x)
}

impl Rng {
    pub fn new(seed: u64) -> Rng {
        let mut x = seed;
        let s = [
            splitmix64(&mut x),
            splitmix64(&mut x),
            splitmix64(&mut x),
            splitmix64(&mut x),
        ];
        Rng { s }
    }

    pub fn next_u64(&mut self) -> u64 {
        let result = self.s[1].wrapping_mul(5).rotate_left(7).wrapping_mul(9);
        let t = self.s[1] << 17;
        self.s[2] ^= self.s[0];
        self.s[3] ^= self.s[1];
        self.s[1] ^= self.s[2];
        self.s[0] ^= self.s[3];
        self.s[2] ^= t;
        self.s[3] = self.s[3].rotate_left(45);
        result
    }

    /// Uniform in 0..n (n > 0).
    pub fn below(&mut self, n: u64) -> u64 {
        debug_assert!(n > 0);
        // multiply-shift; bias is negligible for the small n used here
        ((self.next_u64() as u128 * n as u128) >> 64) as u64
    }

    /// Uniform integer in lo..=hi.
    pub fn range(&mut self, lo: i64, hi: i64) -> i64 {
        debug_assert!(lo <= hi);
        lo + self.below((hi - lo + 1) as u64) as i64
    }

    pub fn usize(&mut self, lo: usize, hi: usize) -> usize {
        self.range(lo as i64, hi as i64) as usize
    }

    /// True with probability num/den.
    pub fn chance(&mut self, num: u64, den: u64) -> bool {
        self.below(den) < num
    }

    pub fn pick<'a, T>(&mut self, items: &'a [T]) -> &'a T {
        &items[self.below(items.len() as u64) as usize]
    }

    /// Index drawn with the given integer weights.
    pub fn weighted(&mut self, weights: &[u64]) -> usize {
        let total: u64 = weights.iter().sum();
        let mut r = self.below(total.max(1));
        for (i, w) in weights.iter().enumerate() {
            if r < *w {
                return i;
            }
            r -= *w;
        }
        weights.len() - 1
    }

    pub fn shuffle<T>(&mut self, items: &mut [T]) {
        for i in (1..items.len()).rev() {
            let j = self.below(i as u64 + 1) as usize;
            items.swap(i, j);
        }
    }
}
