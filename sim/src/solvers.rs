//! Runs one rooc solver entry point on one `GenModel` under one simulated clock schedule
//! and turns whatever happens (solution, error, panic, step-budget exhaustion) into a plain
//! `Outcome` the judges can look at.

use crate::model::{Cmp, Decor, Dom, GenModel, Sense};
use indexmap::IndexMap;
use rooc::model_transformer::DomainVariable;
use rooc::{
    BinOp, BuilderConstraint, Comparison, Expr, InputSpan, LinearConstraint, LinearModel,
    MilpOptions, ModelBuilder, OptimizationType, SolutionStatus, SolverError, VariableType,
};
use serde::{Deserialize, Serialize};
use std::panic::{catch_unwind, AssertUnwindSafe};
use std::time::Duration;
use web_time::sim as clock;

#[derive(Clone, Copy, Debug, PartialEq, Eq, Hash, Serialize, Deserialize, PartialOrd, Ord)]
pub enum Entry {
    Auto,
    Milp,
    MilpWith,
    RealMicrolp,
    Clarabel,
    SlowSimplex,
    BuilderAuto,
    BuilderMicrolp,
    BuilderClarabel,
    /// The pipe runner as front door: the same back-ends reached through
    /// `PipeRunner::run` on a `PipeableData::LinearModel`.
    PipeAuto,
    PipeMilp,
    PipeClarabel,
    PipeSimplex,
}

pub const ALL_ENTRIES: [Entry; 13] = [
    Entry::Auto,
    Entry::Milp,
    Entry::MilpWith,
    Entry::RealMicrolp,
    Entry::Clarabel,
    Entry::SlowSimplex,
    Entry::BuilderAuto,
    Entry::BuilderMicrolp,
    Entry::BuilderClarabel,
    Entry::PipeAuto,
    Entry::PipeMilp,
    Entry::PipeClarabel,
    Entry::PipeSimplex,
];

impl Entry {
    pub fn name(&self) -> &'static str {
        match self {
            Entry::Auto => "auto_solver",
            Entry::Milp => "solve_milp_lp_problem",
            Entry::MilpWith => "solve_milp_lp_problem_with",
            Entry::RealMicrolp => "solve_real_lp_problem_micro_lp",
            Entry::Clarabel => "solve_real_lp_problem_clarabel",
            Entry::SlowSimplex => "solve_real_lp_problem_slow_simplex",
            Entry::BuilderAuto => "ModelBuilder::solve_with(Auto)",
            Entry::BuilderMicrolp => "ModelBuilder::solve_with(Microlp)",
            Entry::BuilderClarabel => "ModelBuilder::solve_with(Clarabel)",
            Entry::PipeAuto => "PipeRunner[AutoSolverPipe]/auto_solver",
            Entry::PipeMilp => "PipeRunner[MILPSolverPipe]/solve_milp_lp_problem",
            Entry::PipeClarabel => "PipeRunner[RealSolver]/solve_real_lp_problem_clarabel",
            Entry::PipeSimplex => {
                "PipeRunner[StandardLinearModelPipe,TableauPipe,StepByStepSimplexPipe]"
            }
        }
    }
    /// Entry points that accept only continuous models.
    pub fn continuous_only(&self) -> bool {
        matches!(
            self,
            Entry::RealMicrolp
                | Entry::Clarabel
                | Entry::SlowSimplex
                | Entry::BuilderClarabel
                | Entry::PipeClarabel
                | Entry::PipeSimplex
        )
    }
    /// Entry points that cannot express `Satisfy`.
    pub fn needs_objective(&self) -> bool {
        matches!(
            self,
            Entry::RealMicrolp | Entry::SlowSimplex | Entry::PipeSimplex
        )
    }
    pub fn accepts(&self, m: &GenModel) -> bool {
        (!self.continuous_only()
            || if self.is_builder() {
                m.is_continuous_through_builder()
            } else {
                m.is_continuous()
            })
            && (!self.needs_objective() || m.sense != Sense::Satisfy)
    }
    /// Backed by microlp (reads the simulated clock).
    pub fn microlp_backed(&self) -> bool {
        matches!(
            self,
            Entry::Auto
                | Entry::Milp
                | Entry::MilpWith
                | Entry::RealMicrolp
                | Entry::BuilderAuto
                | Entry::BuilderMicrolp
                | Entry::PipeAuto
                | Entry::PipeMilp
        )
    }
    /// Takes the time limit / gap options.
    pub fn takes_options(&self) -> bool {
        matches!(self, Entry::MilpWith | Entry::BuilderMicrolp)
    }
    /// Simplex-based (must always reach one of the three verdicts on small models).
    pub fn simplex_based(&self) -> bool {
        !matches!(
            self,
            Entry::Clarabel | Entry::BuilderClarabel | Entry::PipeClarabel
        )
    }
    pub fn is_builder(&self) -> bool {
        matches!(
            self,
            Entry::BuilderAuto | Entry::BuilderMicrolp | Entry::BuilderClarabel
        )
    }
}

#[derive(Clone, Copy, Debug, PartialEq, Serialize, Deserialize)]
pub enum GapSpec {
    Unset,
    Val(f64),
    Nan,
    PosInf,
    NegInf,
}

impl GapSpec {
    pub fn to_option(&self) -> Option<f64> {
        match self {
            GapSpec::Unset => None,
            GapSpec::Val(v) => Some(*v),
            GapSpec::Nan => Some(f64::NAN),
            GapSpec::PosInf => Some(f64::INFINITY),
            GapSpec::NegInf => Some(f64::NEG_INFINITY),
        }
    }
    pub fn is_valid(&self) -> bool {
        match self {
            GapSpec::Unset => true,
            GapSpec::Val(v) => v.is_finite() && *v >= 0.0,
            _ => false,
        }
    }
    /// The gap the optimal label is allowed to use (0 when unset / invalid).
    pub fn allowed(&self) -> f64 {
        match self {
            GapSpec::Val(v) if v.is_finite() && *v >= 0.0 => *v,
            _ => 0.0,
        }
    }
}

#[derive(Clone, Copy, Debug, PartialEq, Eq, Serialize, Deserialize)]
pub enum LimitSpec {
    Unset,
    Dur { secs: u64, nanos: u32 },
}

impl LimitSpec {
    pub const HUGE: LimitSpec = LimitSpec::Dur {
        secs: 1 << 40,
        nanos: 0,
    };
    /// `Duration::MAX`.
    pub const MAX: LimitSpec = LimitSpec::Dur {
        secs: u64::MAX,
        nanos: 999_999_999,
    };
    pub fn to_option(&self) -> Option<Duration> {
        match self {
            LimitSpec::Unset => None,
            LimitSpec::Dur { secs, nanos } => Some(Duration::new(*secs, *nanos)),
        }
    }
}

#[derive(Clone, Copy, Debug, PartialEq, Eq, Serialize, Deserialize)]
pub enum Sched {
    Frozen,
    ExpireAt { k: u64 },
    JumpAt { k: u64, nanos: u64 },
    Ticks { seed: u64, mix: u8 },
}

impl Sched {
    pub fn to_clock(&self) -> clock::Schedule {
        match *self {
            Sched::Frozen => clock::Schedule::Frozen,
            Sched::ExpireAt { k } => clock::Schedule::ExpireAt { k },
            Sched::JumpAt { k, nanos } => clock::Schedule::JumpAt { k, nanos },
            Sched::Ticks { seed, mix } => clock::Schedule::Ticks { seed, mix },
        }
    }
    pub fn kind(&self) -> &'static str {
        match self {
            Sched::Frozen => "stall",
            Sched::ExpireAt { .. } => "expire@k",
            Sched::JumpAt { .. } => "jump",
            Sched::Ticks { .. } => "tick",
        }
    }
}

#[derive(Clone, Copy, Debug, PartialEq, Serialize, Deserialize)]
pub struct RunCfg {
    pub entry: Entry,
    pub gap: GapSpec,
    pub limit: LimitSpec,
    pub sched: Sched,
    /// Clock-read budget (0 = unlimited); exceeding it is the `NoProgress` outcome.
    pub budget: u64,
}

impl RunCfg {
    pub fn plain(entry: Entry) -> RunCfg {
        RunCfg {
            entry,
            gap: GapSpec::Unset,
            limit: LimitSpec::Unset,
            sched: Sched::Frozen,
            budget: 0,
        }
    }
}

#[derive(Clone, Copy, Debug, PartialEq, Eq, Serialize, Deserialize)]
pub enum Label {
    Optimal,
    Feasible,
    Infeasible,
    Unbounded,
}

#[derive(Clone, Copy, Debug, PartialEq, Eq, Serialize, Deserialize)]
pub enum ErrKind {
    Infeasible,
    Unbounded,
    LimitReached,
    DidNotSolve,
    Other,
    InvalidDomain,
    TooLarge,
    UnimplementedOptimizationType,
    UnavailableComparison,
    Linearization,
}

#[derive(Clone, Debug, PartialEq)]
pub struct Sol {
    pub label: Label,
    pub value: f64,
    /// Names in the order of `LpSolution::assignment()`.
    pub assignment: Vec<(String, f64)>,
    /// `LpSolution::constraints()`.
    pub rows: Vec<(String, f64)>,
    /// Builder entries only: value read back through each declared variable's handle.
    pub handle_values: Option<Vec<Option<f64>>>,
    /// `LpSolution::value_of(name)` for every name in the assignment, in the same order.
    pub lookups: Vec<Option<f64>>,
}

#[derive(Clone, Debug, PartialEq)]
pub enum Outcome {
    Sol(Sol),
    Err { kind: ErrKind, msg: String },
    Panic { msg: String },
    NoProgress { reads: u64 },
    /// A no-limit entry point (which never polls the simulated clock) did not return within
    /// the wall-clock watchdog although its limit-taking twin terminated at once. Last
    /// resort against changes that make such a call spin; never produced on a tree where
    /// the property holds.
    Hung { secs: u64 },
    /// Not executed because too many calls of this process already hang.
    NotRun,
}

impl Outcome {
    pub fn tag(&self) -> String {
        match self {
            Outcome::Sol(s) => format!("Ok({:?})", s.label),
            Outcome::Err { kind, .. } => format!("Err({kind:?})"),
            Outcome::Panic { .. } => "Panic".into(),
            Outcome::NoProgress { .. } => "NoProgress".into(),
            Outcome::Hung { .. } => "Hung".into(),
            Outcome::NotRun => "NotRun".into(),
        }
    }
    /// Bit-exact fingerprint, for clock-independence and determinism comparisons.
    pub fn fingerprint(&self) -> String {
        match self {
            Outcome::Sol(s) => {
                let mut out = format!("Ok|{:?}|{:016x}", s.label, s.value.to_bits());
                for (n, v) in &s.assignment {
                    out.push_str(&format!("|{n}={:016x}", v.to_bits()));
                }
                for (n, v) in &s.rows {
                    out.push_str(&format!("|{n}:{:016x}", v.to_bits()));
                }
                out
            }
            Outcome::Err { kind, msg } => format!("Err|{kind:?}|{msg}"),
            Outcome::Panic { msg } => format!("Panic|{msg}"),
            Outcome::NoProgress { reads } => format!("NoProgress|{reads}"),
            Outcome::Hung { secs } => format!("Hung|{secs}"),
            Outcome::NotRun => "NotRun".to_string(),
        }
    }
}

#[derive(Clone, Debug)]
pub struct RunResult {
    pub outcome: Outcome,
    pub clock: clock::Report,
}

pub fn var_type(d: &Dom) -> VariableType {
    match d {
        Dom::Bool => VariableType::Boolean,
        Dom::Int { lo, hi } => VariableType::IntegerRange(*lo, *hi),
        Dom::Real { .. } => {
            let (lo, hi) = d.bounds_f64();
            VariableType::Real(lo, hi)
        }
        Dom::NonNeg { .. } => {
            let (lo, hi) = d.bounds_f64();
            VariableType::NonNegativeReal(lo, hi)
        }
    }
}

fn comparison(c: Cmp) -> Comparison {
    match c {
        Cmp::Le => Comparison::LessOrEqual,
        Cmp::Ge => Comparison::GreaterOrEqual,
        Cmp::Eq => Comparison::Equal,
    }
}

fn opt_type(s: Sense) -> OptimizationType {
    match s {
        Sense::Min => OptimizationType::Min,
        Sense::Max => OptimizationType::Max,
        Sense::Satisfy => OptimizationType::Satisfy,
    }
}

/// The rooc `LinearModel` for a `GenModel`, through the public constructor only.
pub fn to_linear_model(m: &GenModel) -> LinearModel {
    let variables: Vec<String> = m.vars.iter().map(|v| v.name.clone()).collect();
    // The domain is a map keyed by name: its insertion order carries no meaning and need
    // not be the column order (a deserialised or re-assembled model has any order). Insert
    // in an order that is a pure function of the names, so that code which pairs columns
    // with domains by position instead of by name is exposed.
    let mut order: Vec<&crate::model::Var> = m.vars.iter().collect();
    order.sort_by_key(|v| crate::rng::fnv(v.name.as_bytes()));
    let domain: IndexMap<String, DomainVariable> = order
        .into_iter()
        .map(|v| {
            (
                v.name.clone(),
                DomainVariable::new(var_type(&v.dom), InputSpan::default()),
            )
        })
        .collect();
    let constraints: Vec<LinearConstraint> = m
        .rows
        .iter()
        .map(|r| {
            LinearConstraint::new_with_name(
                r.coefs.clone(),
                comparison(r.cmp),
                r.rhs,
                r.name.clone(),
            )
        })
        .collect();
    LinearModel::new_from_parts(
        m.effective_obj(),
        opt_type(m.sense),
        m.offset,
        constraints,
        variables,
        domain,
    )
}

fn lin_expr(coefs: &[f64], constant: f64) -> Expr {
    let mut acc: Option<Expr> = None;
    for (i, c) in coefs.iter().enumerate() {
        if *c == 0.0 {
            continue;
        }
        let term = if *c == 1.0 {
            Expr::Variable(i)
        } else {
            Expr::BinOp(
                BinOp::Mul,
                Box::new(Expr::Number(*c)),
                Box::new(Expr::Variable(i)),
            )
        };
        acc = Some(match acc {
            None => term,
            Some(prev) => Expr::BinOp(BinOp::Add, Box::new(prev), Box::new(term)),
        });
    }
    match (acc, constant) {
        (None, c) => Expr::Number(c),
        (Some(e), c) if c == 0.0 => e,
        (Some(e), c) => Expr::BinOp(BinOp::Add, Box::new(e), Box::new(Expr::Number(c))),
    }
}

/// The same model through the fluent builder (declaration order = `GenModel` order).
pub fn to_builder(m: &GenModel) -> (ModelBuilder, Vec<rooc::Var>) {
    let mut b = ModelBuilder::new();
    let handles: Vec<rooc::Var> = m
        .vars
        .iter()
        .map(|v| b.add_var(v.name.clone(), var_type(&v.dom)))
        .collect();
    for r in &m.rows {
        b = b.with(BuilderConstraint::new(
            lin_expr(&r.coefs, 0.0),
            comparison(r.cmp),
            Expr::Number(r.rhs),
            r.name.clone(),
        ));
    }
    for d in &m.decor {
        let (i, j) = d.vars();
        let (xi, xj) = (Expr::Variable(i), Expr::Variable(j));
        let (lhs, cmp, bound) = match d {
            Decor::AbsLe { bound, .. } => (
                Expr::Abs(Box::new(Expr::BinOp(BinOp::Sub, Box::new(xi), Box::new(xj)))),
                Comparison::LessOrEqual,
                *bound,
            ),
            Decor::MaxGe { bound, .. } => (Expr::Max(vec![xi, xj]), Comparison::GreaterOrEqual, *bound),
            Decor::MinLe { bound, .. } => (Expr::Min(vec![xi, xj]), Comparison::LessOrEqual, *bound),
        };
        b = b.with(BuilderConstraint::new(lhs, cmp, Expr::Number(bound), String::new()));
    }
    let obj = lin_expr(&m.effective_obj(), m.offset);
    b = match m.sense {
        Sense::Min => b.minimize(obj),
        Sense::Max => b.maximize(obj),
        Sense::Satisfy => b.satisfy(),
    };
    (b, handles)
}

fn label(s: SolutionStatus) -> Label {
    match s {
        SolutionStatus::Optimal => Label::Optimal,
        SolutionStatus::Feasible => Label::Feasible,
        SolutionStatus::Infeasible => Label::Infeasible,
        SolutionStatus::Unbounded => Label::Unbounded,
    }
}

fn err_outcome(e: &SolverError) -> Outcome {
    let kind = match e {
        SolverError::Infeasible => ErrKind::Infeasible,
        SolverError::Unbounded => ErrKind::Unbounded,
        SolverError::LimitReached => ErrKind::LimitReached,
        SolverError::DidNotSolve => ErrKind::DidNotSolve,
        SolverError::Other(_) => ErrKind::Other,
        SolverError::InvalidDomain { .. } => ErrKind::InvalidDomain,
        SolverError::TooLarge { .. } => ErrKind::TooLarge,
        SolverError::UnimplementedOptimizationType { .. } => ErrKind::UnimplementedOptimizationType,
        SolverError::UnavailableComparison { .. } => ErrKind::UnavailableComparison,
    };
    Outcome::Err {
        kind,
        msg: e.to_string(),
    }
}

fn sol_from<T>(s: &rooc::LpSolution<T>) -> Sol
where
    T: Clone + Serialize + serde::de::DeserializeOwned + Copy + std::fmt::Display + Into<f64>,
{
    Sol {
        label: label(s.status()),
        value: s.value(),
        assignment: s
            .assignment()
            .iter()
            .map(|a| (a.name.clone(), a.value.into()))
            .collect(),
        rows: s
            .constraints()
            .iter()
            .map(|(n, v)| (n.clone(), *v))
            .collect(),
        handle_values: None,
        lookups: s
            .assignment()
            .iter()
            .map(|a| s.value_of(&a.name).map(Into::into))
            .collect(),
    }
}

fn direct<T>(r: Result<rooc::LpSolution<T>, SolverError>) -> Outcome
where
    T: Clone + Serialize + serde::de::DeserializeOwned + Copy + std::fmt::Display + Into<f64>,
{
    match r {
        Ok(s) => Outcome::Sol(sol_from(&s)),
        Err(e) => err_outcome(&e),
    }
}

fn via_builder<S>(m: &GenModel, solver: S) -> Outcome
where
    S: rooc::Solver,
    S::Solution: rooc::Solution,
    S: BuilderLp,
{
    let (b, handles) = to_builder(m);
    match b.solve_with(solver) {
        Ok(bs) => {
            let mut sol = S::sol(bs.solution());
            sol.value = bs.value();
            sol.handle_values = Some(handles.iter().map(|h| bs.numeric_value(*h)).collect());
            Outcome::Sol(sol)
        }
        Err(rooc::BuilderError::Solver(e)) => err_outcome(&e),
        Err(rooc::BuilderError::Linearization(e)) => Outcome::Err {
            kind: ErrKind::Linearization,
            msg: e.to_string(),
        },
    }
}

/// Glue so that `via_builder` can turn each built-in solver's solution into a `Sol`.
pub trait BuilderLp: rooc::Solver {
    fn sol(s: &Self::Solution) -> Sol;
}
impl BuilderLp for rooc::Auto {
    fn sol(s: &Self::Solution) -> Sol {
        sol_from(s)
    }
}
impl BuilderLp for rooc::Microlp {
    fn sol(s: &Self::Solution) -> Sol {
        sol_from(s)
    }
}
impl BuilderLp for rooc::Clarabel {
    fn sol(s: &Self::Solution) -> Sol {
        sol_from(s)
    }
}

pub fn panic_message(payload: &(dyn std::any::Any + Send)) -> String {
    if let Some(s) = payload.downcast_ref::<&str>() {
        (*s).to_string()
    } else if let Some(s) = payload.downcast_ref::<String>() {
        s.clone()
    } else {
        "non-string panic payload".to_string()
    }
}

/// Iteration budget given to the tableau simplex entry point.
pub const SLOW_SIMPLEX_LIMIT: i64 = 10_000;

fn call(m: &GenModel, cfg: &RunCfg) -> Outcome {
    let options = MilpOptions {
        mip_gap: cfg.gap.to_option(),
        time_limit: cfg.limit.to_option(),
    };
    match cfg.entry {
        Entry::Auto => direct(rooc::auto_solver(&to_linear_model(m))),
        Entry::Milp => direct(rooc::solve_milp_lp_problem(&to_linear_model(m))),
        Entry::MilpWith => direct(rooc::solve_milp_lp_problem_with(
            &to_linear_model(m),
            &options,
        )),
        Entry::RealMicrolp => direct(rooc::solve_real_lp_problem_micro_lp(&to_linear_model(m))),
        Entry::Clarabel => direct(rooc::solve_real_lp_problem_clarabel(&to_linear_model(m))),
        Entry::SlowSimplex => direct(rooc::solve_real_lp_problem_slow_simplex(
            &to_linear_model(m),
            SLOW_SIMPLEX_LIMIT,
        )),
        Entry::BuilderAuto => via_builder(m, rooc::Auto),
        Entry::BuilderMicrolp => {
            // The solver configuration is reached through one of four setter chains (a pure
            // function of the run's configuration, so replay sees the same one): directly;
            // over earlier, different values of the same options; the same through a clone;
            // or with the two options set in the other order. The last value set is the
            // configuration, whatever was there before.
            let chain = crate::rng::fnv(format!("{cfg:?}").as_bytes()) % 4;
            let mut s = rooc::Microlp::new();
            if chain == 1 || chain == 2 {
                if let Some(g) = options.mip_gap {
                    s = s.with_mip_gap(if g == 0.5 { 0.25 } else { 0.5 });
                }
                if options.time_limit.is_some() {
                    s = s.with_time_limit(std::time::Duration::from_secs(7));
                }
                if chain == 2 {
                    let earlier = s.clone();
                    s = earlier.clone();
                }
            }
            if chain == 3 {
                if let Some(l) = options.time_limit {
                    s = s.with_time_limit(l);
                }
                if let Some(g) = options.mip_gap {
                    s = s.with_mip_gap(g);
                }
            } else {
                if let Some(g) = options.mip_gap {
                    s = s.with_mip_gap(g);
                }
                if let Some(l) = options.time_limit {
                    s = s.with_time_limit(l);
                }
            }
            via_builder(m, s)
        }
        Entry::BuilderClarabel => via_builder(m, rooc::Clarabel),
        Entry::PipeAuto => via_pipes(m, vec![Box::new(rooc::pipe::AutoSolverPipe::new())]),
        Entry::PipeMilp => via_pipes(m, vec![Box::new(rooc::pipe::MILPSolverPipe::new())]),
        Entry::PipeClarabel => via_pipes(m, vec![Box::new(rooc::pipe::RealSolver::new())]),
        Entry::PipeSimplex => via_pipes(
            m,
            vec![
                Box::new(rooc::pipe::StandardLinearModelPipe::new()),
                Box::new(rooc::pipe::TableauPipe::new()),
                Box::new(rooc::pipe::StepByStepSimplexPipe::new()),
            ],
        ),
    }
}

/// The pipe runner as front door: the linear model is the first datum, the listed pipes run
/// in order, the last datum is the answer. The runner must hand back one datum per stage
/// (the input included); errors keep their dedicated kinds.
fn via_pipes(m: &GenModel, pipes: Vec<Box<dyn rooc::pipe::Pipeable>>) -> Outcome {
    use rooc::pipe::{PipeContext, PipeError, PipeRunner, PipeableData};
    use rooc::{CanonicalTransformError, SimplexError};
    let fns: IndexMap<String, Box<dyn rooc::RoocFunction>> = IndexMap::new();
    let ctx = PipeContext::new(vec![], &fns);
    let stages = pipes.len();
    let runner = PipeRunner::new(pipes);
    let other = |msg: String| Outcome::Err {
        kind: ErrKind::Other,
        msg,
    };
    match runner.run(PipeableData::LinearModel(to_linear_model(m)), &ctx) {
        Ok(mut results) => {
            if results.len() != stages + 1 {
                return other(format!(
                    "pipe runner returned {} data for {} stages",
                    results.len(),
                    stages
                ));
            }
            match results.pop() {
                Some(PipeableData::MILPSolution(s)) => Outcome::Sol(sol_from(&s)),
                Some(PipeableData::RealSolution(s)) => Outcome::Sol(sol_from(&s)),
                Some(PipeableData::OptimalTableauWithSteps(o)) => {
                    Outcome::Sol(sol_from(&o.result().as_lp_solution()))
                }
                Some(d) => other(format!("pipe runner ended with {}", d.get_type())),
                None => other("pipe runner returned nothing".to_string()),
            }
        }
        Err((e, _)) => match e {
            PipeError::SolverError(e) | PipeError::StandardizationError(e) => err_outcome(&e),
            PipeError::CanonicalizationError(CanonicalTransformError::Infesible(msg)) => {
                Outcome::Err {
                    kind: ErrKind::Infeasible,
                    msg,
                }
            }
            PipeError::StepByStepSimplexError(SimplexError::Unbounded, _) => Outcome::Err {
                kind: ErrKind::Unbounded,
                msg: "StepByStepSimplexError(Unbounded)".to_string(),
            },
            PipeError::StepByStepSimplexError(SimplexError::IterationLimitReached, _) => {
                Outcome::Err {
                    kind: ErrKind::LimitReached,
                    msg: "StepByStepSimplexError(IterationLimitReached)".to_string(),
                }
            }
            e => other(e.to_string()),
        },
    }
}

/// Wall-clock watchdog for the entry points whose loops never poll the simulated clock.
pub const WATCHDOG_SECS: u64 = 10;
const MAX_HUNG_THREADS: usize = 12;
static HUNG_THREADS: std::sync::atomic::AtomicUsize = std::sync::atomic::AtomicUsize::new(0);

/// One simulated run. A pure function of (`m`, `cfg`, the code under test).
///
/// Entry points that take a limit are bounded by the simulated clock's read budget. The
/// no-limit microlp entry points are only ever called on models whose limit-taking twin
/// terminated (same pivoting), and additionally run on a sacrificial thread under a
/// wall-clock watchdog, so that a change to rooc which makes them spin ends as a verdict
/// (`Hung`) instead of wedging the harness.
pub fn run(m: &GenModel, cfg: &RunCfg) -> RunResult {
    use std::sync::atomic::Ordering;
    if cfg.entry.microlp_backed() && !cfg.entry.takes_options() {
        if HUNG_THREADS.load(Ordering::Relaxed) >= MAX_HUNG_THREADS {
            return RunResult {
                outcome: Outcome::NotRun,
                clock: clock::Report::default(),
            };
        }
        let (tx, rx) = std::sync::mpsc::channel();
        let (m2, cfg2) = (m.clone(), *cfg);
        let spawned = std::thread::Builder::new()
            .stack_size(8 << 20)
            .spawn(move || {
                let _ = tx.send(run_here(&m2, &cfg2));
            });
        if spawned.is_err() {
            return run_here(m, cfg);
        }
        // deep-search models legitimately take seconds per solve, much more on a loaded
        // machine: for them only the global wall-clock cap applies
        let watchdog = if m.int_points() > 4096 {
            3_600
        } else {
            WATCHDOG_SECS
        };
        return match rx.recv_timeout(Duration::from_secs(watchdog)) {
            Ok(r) => r,
            Err(_) => {
                HUNG_THREADS.fetch_add(1, Ordering::Relaxed);
                RunResult {
                    outcome: Outcome::Hung {
                        secs: WATCHDOG_SECS,
                    },
                    clock: clock::Report::default(),
                }
            }
        };
    }
    run_here(m, cfg)
}

fn run_here(m: &GenModel, cfg: &RunCfg) -> RunResult {
    clock::install(cfg.sched.to_clock(), cfg.budget);
    let result = catch_unwind(AssertUnwindSafe(|| call(m, cfg)));
    let report = clock::uninstall();
    let outcome = match result {
        Ok(o) => o,
        Err(payload) => {
            if let Some(b) = payload.downcast_ref::<clock::StepBudgetExceeded>() {
                Outcome::NoProgress { reads: b.reads }
            } else {
                Outcome::Panic {
                    msg: panic_message(payload.as_ref()),
                }
            }
        }
    };
    RunResult {
        outcome,
        clock: report,
    }
}

/// Status microlp itself reports for the same problem under the same schedule; used only
/// to label which phase of the search an interruption landed in (coverage probes), never
/// as an oracle.
#[derive(Clone, Copy, Debug, PartialEq, Eq)]
pub enum DirectStatus {
    Optimal,
    Feasible,
    Interrupted,
    Infeasible,
    Unbounded,
    OtherError,
    NoProgress,
    Panic,
}

pub struct DirectRun {
    pub status: DirectStatus,
    pub nodes: u64,
    pub lp_iterations: u64,
    pub reads: u64,
}

pub fn run_microlp_direct(m: &GenModel, cfg: &RunCfg) -> DirectRun {
    use microlp::{ComparisonOp, OptimizationDirection, Problem, SolveOptions, Status};
    let dir = match m.sense {
        Sense::Max => OptimizationDirection::Maximize,
        _ => OptimizationDirection::Minimize,
    };
    let mut p = Problem::new(dir);
    let obj = m.effective_obj();
    let vars: Vec<_> = m
        .vars
        .iter()
        .zip(&obj)
        .map(|(v, c)| match &v.dom {
            Dom::Bool => p.add_binary_var(*c),
            Dom::Int { lo, hi } => p.add_integer_var(*c, (*lo, *hi)),
            d => p.add_var(*c, d.bounds_f64()),
        })
        .collect();
    // rooc carries a non-zero objective offset on a column fixed at 1 (fix 0f41189); mirror
    // it so that this direct run is the same execution, read for read
    if m.offset != 0.0 {
        p.add_var(m.offset, (1.0, 1.0));
    }
    for r in &m.rows {
        let lhs: Vec<_> = vars.iter().zip(&r.coefs).map(|(v, c)| (*v, *c)).collect();
        let op = match r.cmp {
            Cmp::Le => ComparisonOp::Le,
            Cmp::Ge => ComparisonOp::Ge,
            Cmp::Eq => ComparisonOp::Eq,
        };
        p.add_constraint(lhs, op, r.rhs);
    }
    let mut so = SolveOptions::default();
    if let Some(g) = cfg.gap.to_option() {
        so.mip_gap = g;
    }
    so.time_limit = cfg.limit.to_option();
    clock::install(cfg.sched.to_clock(), cfg.budget);
    let result = catch_unwind(AssertUnwindSafe(|| p.solve_with(so)));
    let report = clock::uninstall();
    let (status, nodes, lp_iterations) = match result {
        Ok(Ok(s)) => {
            let st = s.stats();
            (
                match s.status() {
                    Status::Optimal => DirectStatus::Optimal,
                    Status::Feasible => DirectStatus::Feasible,
                    Status::Interrupted => DirectStatus::Interrupted,
                },
                st.nodes_solved,
                st.lp_iterations,
            )
        }
        Ok(Err(microlp::Error::Infeasible)) => (DirectStatus::Infeasible, 0, 0),
        Ok(Err(microlp::Error::Unbounded)) => (DirectStatus::Unbounded, 0, 0),
        Ok(Err(_)) => (DirectStatus::OtherError, 0, 0),
        Err(payload) => {
            if payload.downcast_ref::<clock::StepBudgetExceeded>().is_some() {
                (DirectStatus::NoProgress, 0, 0)
            } else {
                (DirectStatus::Panic, 0, 0)
            }
        }
    };
    DirectRun {
        status,
        nodes,
        lp_iterations,
        reads: report.reads,
    }
}
