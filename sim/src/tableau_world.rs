//! C14 world: the harness is the caller of rooc's stateful `Tableau`. A seeded schedule of
//! stepping operations (single steps with tie-preference sets, budgeted solves that are
//! interrupted and resumed, snapshots) drives the real implementation; an exact rational
//! tableau is advanced by the pivot the implementation exhibits and every intermediate
//! state of every trace is compared against it.

use crate::case::Violation;
use crate::model::{Cmp, Dom, GenModel, Sense};
use crate::oracle::{self, ConQ, Verdict};
use crate::q::Q;
use crate::rng::fnv;
use crate::solvers::to_linear_model;
use rooc::{SimplexError, StepAction, Tableau};
use serde::{Deserialize, Serialize};

pub const FULL_LIMIT: i64 = 10_000;
const TOL: f64 = 1e-6;
/// Exact quantities strictly between 0 and this are "tolerance-edge": the float
/// predicates of the implementation (1e-5) may legitimately treat them as zero, so such a
/// case decides nothing and is skipped (counted).
const EDGE_NUM: i128 = 1;
const EDGE_DEN: i128 = 2_000; // 5e-4

#[derive(Clone, Debug, PartialEq, Serialize, Deserialize)]
pub enum TableauSource {
    /// Through the real path `LinearModel -> into_standard_form -> into_tableau`.
    Model(GenModel),
    /// A canonical tableau handed to `Tableau::new` (minimisation, no flip, no offset).
    Canonical {
        c: Vec<f64>,
        a: Vec<Vec<f64>>,
        b: Vec<f64>,
        basis: Vec<usize>,
        value: f64,
    },
    /// The textbook phase-1 tableau of `A x = b, x >= 0` (`b >= 0`): artificial identity
    /// basis, cost = minus the column sums, value = minus the sum of `b`.
    Phase1 { a: Vec<Vec<f64>>, b: Vec<f64> },
}

#[derive(Clone, Debug, PartialEq, Serialize, Deserialize)]
pub enum Op {
    Step { prefer: Vec<usize> },
    Solve { limit: i64 },
    SolveAvoiding { limit: i64, prefer: Vec<usize> },
    SolveStepByStep { limit: i64 },
    Snapshot,
}

#[derive(Clone, Debug, PartialEq, Serialize, Deserialize)]
pub struct TableauCase {
    /// For tableaux handed to `Tableau::new`: the `flip_result` flag (objective was negated
    /// for maximisation) and the objective offset `optimal_value()` has to undo / add.
    #[serde(default)]
    pub flip: bool,
    #[serde(default)]
    pub offset: f64,
    pub source: TableauSource,
    /// Enumerate every prefix of the uninterrupted `solve(10_000)` first.
    pub prefixes: bool,
    pub ops: Vec<Op>,
    /// Clock behaviour while the case runs. The tableau takes no time limit: a moving or
    /// jumping clock (seen through `web_time` or `std::time`) must change nothing.
    #[serde(default)]
    pub clock: Option<crate::solvers::Sched>,
}

#[derive(Clone, Debug)]
struct Exact {
    c: Vec<Q>,
    a: Vec<Vec<Q>>,
    b: Vec<Q>,
    basis: Vec<usize>,
    value: Q,
}

impl Exact {
    fn pivot(&mut self, t: usize, h: usize) {
        let p = self.a[t][h];
        let w = self.c.len();
        for i in 0..self.a.len() {
            if i != t && !self.a[i][h].is_zero() {
                let f = self.a[i][h].div(p);
                for j in 0..w {
                    let d = f.mul(self.a[t][j]);
                    self.a[i][j] = self.a[i][j].sub(d);
                }
                self.b[i] = self.b[i].sub(f.mul(self.b[t]));
            }
        }
        let fc = self.c[h].div(p);
        for j in 0..w {
            self.c[j] = self.c[j].sub(fc.mul(self.a[t][j]));
        }
        self.value = self.value.sub(fc.mul(self.b[t]));
        for j in 0..w {
            self.a[t][j] = self.a[t][j].div(p);
        }
        self.b[t] = self.b[t].div(p);
        self.basis[t] = h;
    }
    fn solution(&self) -> Vec<Q> {
        let mut x = vec![Q::ZERO; self.c.len()];
        for (i, j) in self.basis.iter().enumerate() {
            x[*j] = self.b[i];
        }
        x
    }
}

fn is_edge(q: Q) -> bool {
    !q.is_zero() && q.abs() < Q::new(EDGE_NUM, EDGE_DEN)
}

/// Best small rational within 1e-9 (relative) of `x`, or None.
fn rationalise(x: f64) -> Option<Q> {
    if !x.is_finite() {
        return None;
    }
    if x.abs() < 1e-9 {
        return Some(Q::ZERO);
    }
    let neg = x < 0.0;
    let target = x.abs();
    let (mut p0, mut q0, mut p1, mut q1) = (0i128, 1i128, 1i128, 0i128);
    let mut r = target;
    for _ in 0..40 {
        let a = r.floor();
        if a > 1e12 {
            return None;
        }
        let ai = a as i128;
        let p2 = ai.checked_mul(p1)?.checked_add(p0)?;
        let q2 = ai.checked_mul(q1)?.checked_add(q0)?;
        if q2 > 1_000_000 {
            return None;
        }
        let approx = p2 as f64 / q2 as f64;
        if (approx - target).abs() <= 1e-9 * target.max(1.0) {
            return Some(Q::new(if neg { -p2 } else { p2 }, q2));
        }
        p0 = p1;
        q0 = q1;
        p1 = p2;
        q1 = q2;
        let frac = r - a;
        if frac.abs() < 1e-15 {
            return None;
        }
        r = 1.0 / frac;
    }
    None
}

fn exact_from(t: &Tableau, exact_data: bool) -> Option<Exact> {
    let conv = |x: f64| -> Option<Q> {
        if exact_data {
            Some(Q::from_f64(x))
        } else {
            rationalise(x)
        }
    };
    Some(Exact {
        c: t.c_vec().iter().map(|x| conv(*x)).collect::<Option<_>>()?,
        a: t
            .a_matrix()
            .iter()
            .map(|r| r.iter().map(|x| conv(*x)).collect::<Option<Vec<Q>>>())
            .collect::<Option<_>>()?,
        b: t.b_vec().iter().map(|x| conv(*x)).collect::<Option<_>>()?,
        basis: t.in_basis().clone(),
        value: conv(t.current_value())?,
    })
}

fn fingerprint(t: &Tableau) -> u64 {
    let mut bytes = Vec::new();
    for r in t.a_matrix() {
        for x in r {
            bytes.extend_from_slice(&x.to_bits().to_le_bytes());
        }
    }
    for x in t.b_vec().iter().chain(t.c_vec()) {
        bytes.extend_from_slice(&x.to_bits().to_le_bytes());
    }
    for j in t.in_basis() {
        bytes.extend_from_slice(&(*j as u64).to_le_bytes());
    }
    bytes.extend_from_slice(&t.current_value().to_bits().to_le_bytes());
    fnv(&bytes)
}

#[derive(Clone, Debug, Default)]
pub struct Probes {
    pub pipe_driver: u64,
    pub pivots_checked: u64,
    pub degenerate_pivot: u64,
    pub ratio_tie: u64,
    pub tie_broken_by_preference: u64,
    pub bland_engaged: u64,
    pub unbounded_detected: u64,
    pub finished: u64,
    pub interrupted: u64,
    pub resumed: u64,
    pub resume_changed_sequence: u64,
    pub two_phase_start: u64,
    pub infeasible_start: u64,
    pub snapshots: u64,
    pub long_trace_sampled: u64,
}

pub struct TableauRun {
    pub violations: Vec<Violation>,
    /// Some(reason) when the case decides nothing (tolerance edge, unrationalisable start).
    pub skipped: Option<String>,
    pub probes: Probes,
    /// Hash of every basis sequence seen (distinct-trace measure).
    pub trace_hash: u64,
    pub states: u64,
}

struct Ctx {
    violations: Vec<Violation>,
    skipped: Option<String>,
    probes: Probes,
    trace: Vec<u8>,
    states: u64,
    /// exact initial system (for "satisfies the original equalities")
    a0: Vec<Vec<Q>>,
    b0: Vec<Q>,
    /// Absolute float slack: 1e-12 x the largest magnitude in the initial data. An entry
    /// that is exactly 0 after cancelling 1e7-sized numbers is 0 only to about 1e-9 in f64.
    slack: f64,
}

impl Ctx {
    fn v(&mut self, class: &str, detail: String) {
        self.violations.push(Violation {
            prop: "C14".into(),
            class: class.into(),
            detail,
            entry: String::new(),
            truth: String::new(),
        });
    }
    fn skip(&mut self, why: &str) {
        if self.skipped.is_none() {
            self.skipped = Some(why.to_string());
        }
    }
}

fn close(x: f64, q: Q) -> bool {
    let e = q.to_f64();
    (x - e).abs() <= TOL * e.abs().max(1.0)
}

fn close_s(x: f64, q: Q, slack: f64) -> bool {
    let e = q.to_f64();
    (x - e).abs() <= TOL * e.abs().max(1.0) + slack
}

/// Float state against the exact state, plus the state invariants of the property.
fn check_state(ctx: &mut Ctx, t: &Tableau, r: &Exact, at: &str) {
    ctx.states += 1;
    let (a, b, c) = (t.a_matrix(), t.b_vec(), t.c_vec());
    if a.len() != r.a.len() || c.len() != r.c.len() || b.len() != r.b.len() {
        ctx.v("shape", format!("{at}: tableau shape changed"));
        return;
    }
    if t.in_basis() != &r.basis {
        ctx.v(
            "basis-update",
            format!("{at}: basis {:?} but the pivots shown imply {:?}", t.in_basis(), r.basis),
        );
        return;
    }
    // 2. equivalence: the float tableau is the exact row-equivalent tableau
    for i in 0..a.len() {
        for j in 0..c.len() {
            if !close_s(a[i][j], r.a[i][j], ctx.slack) {
                ctx.v(
                    "equivalence",
                    format!("{at}: a[{i}][{j}] = {} but row operations from the initial system give {}", a[i][j], r.a[i][j]),
                );
                return;
            }
        }
        if !close_s(b[i], r.b[i], ctx.slack) {
            ctx.v(
                "equivalence",
                format!("{at}: b[{i}] = {} but row operations from the initial system give {}", b[i], r.b[i]),
            );
            return;
        }
    }
    for j in 0..c.len() {
        if !close_s(c[j], r.c[j], ctx.slack) {
            ctx.v(
                "equivalence",
                format!("{at}: reduced cost c[{j}] = {} but exact value is {}", c[j], r.c[j]),
            );
            return;
        }
    }
    if !close_s(t.current_value(), r.value, ctx.slack) {
        ctx.v(
            "objective-value",
            format!("{at}: current_value = {} but exact value is {}", t.current_value(), r.value),
        );
    }
    // 3. basic columns are unit columns, basic reduced costs vanish
    for (row, col) in t.in_basis().iter().enumerate() {
        for i in 0..a.len() {
            let want = if i == row { 1.0 } else { 0.0 };
            if (a[i][*col] - want).abs() > TOL + ctx.slack {
                ctx.v(
                    "unit-column",
                    format!("{at}: basic column {col} (row {row}) has a[{i}][{col}] = {}", a[i][*col]),
                );
                return;
            }
        }
        if c[*col].abs() > TOL + ctx.slack {
            ctx.v(
                "unit-column",
                format!("{at}: basic column {col} has reduced cost {}", c[*col]),
            );
            return;
        }
    }
    // 4. basic solution non-negative and satisfies the *initial* equalities
    for (i, bi) in b.iter().enumerate() {
        if *bi < -(TOL + ctx.slack) {
            ctx.v(
                "feasibility",
                format!("{at}: basic variable of row {i} is negative ({bi})"),
            );
            return;
        }
    }
    let mut x = vec![0.0; c.len()];
    for (i, j) in t.in_basis().iter().enumerate() {
        x[*j] = b[i];
    }
    for (i, row) in ctx.a0.clone().iter().enumerate() {
        if row.len() != x.len() {
            break; // initial system lives in another column space (never for one tableau)
        }
        let act: f64 = row.iter().zip(&x).map(|(q, v)| q.to_f64() * v).sum();
        let scale = row
            .iter()
            .zip(&x)
            .map(|(q, v)| (q.to_f64() * v).abs())
            .fold(1.0, f64::max);
        if (act - ctx.b0[i].to_f64()).abs() > TOL * scale {
            ctx.v(
                "original-equalities",
                format!("{at}: basic solution gives {act} in initial row {i}, expected {}", ctx.b0[i]),
            );
            return;
        }
    }
}

/// Checks in exact arithmetic that going from `r` to a state with basis `next_basis` is one
/// legal simplex pivot, and applies it. Returns (entering, leaving row) when it could.
fn check_and_apply_pivot(
    ctx: &mut Ctx,
    r: &mut Exact,
    next_basis: &[usize],
    prefer: &[usize],
    at: &str,
) -> Option<(usize, usize)> {
    let changed: Vec<usize> = (0..r.basis.len())
        .filter(|i| r.basis[*i] != next_basis[*i])
        .collect();
    if changed.len() != 1 {
        ctx.v(
            "basis-update",
            format!("{at}: one pivot changed {} basis entries ({:?} -> {:?})", changed.len(), r.basis, next_basis),
        );
        return None;
    }
    let t = changed[0];
    let h = next_basis[t];
    if h >= r.c.len() || r.basis.contains(&h) {
        ctx.v(
            "basis-update",
            format!("{at}: entering column {h} is out of range or already basic"),
        );
        return None;
    }
    // tolerance-edge data decides nothing
    if is_edge(r.c[h]) || r.a.iter().any(|row| is_edge(row[h])) {
        ctx.skip("tolerance-edge entering column");
        return None;
    }
    // 1. legality
    if !r.c[h].is_neg() {
        ctx.v(
            "illegal-pivot",
            format!("{at}: entering column {h} has reduced cost {} (not negative): the objective cannot improve", r.c[h]),
        );
        return None;
    }
    if !r.a[t][h].is_pos() {
        ctx.v(
            "illegal-pivot",
            format!("{at}: pivot element a[{t}][{h}] = {} is not positive", r.a[t][h]),
        );
        return None;
    }
    let ratio = r.b[t].div(r.a[t][h]);
    let mut ties = 0;
    let mut tie_rows = Vec::new();
    for i in 0..r.a.len() {
        if r.a[i][h].is_pos() {
            let ri = r.b[i].div(r.a[i][h]);
            if ri < ratio {
                if is_edge(ratio.sub(ri)) {
                    ctx.skip("tolerance-edge ratio difference");
                    return None;
                }
                ctx.v(
                    "illegal-pivot",
                    format!("{at}: leaving row {t} has ratio {ratio} but row {i} has the smaller ratio {ri}: the basic solution leaves the feasible region"),
                );
                return None;
            }
            if ri == ratio {
                ties += 1;
                tie_rows.push(i);
            } else if is_edge(ri.sub(ratio)) {
                ctx.skip("tolerance-edge ratio difference");
                return None;
            }
        }
    }
    ctx.probes.pivots_checked += 1;
    if ratio.is_zero() {
        ctx.probes.degenerate_pivot += 1;
    }
    if ties > 1 {
        ctx.probes.ratio_tie += 1;
        let chosen_pref = prefer.contains(&r.basis[t]);
        let smaller_unpreferred = tie_rows
            .iter()
            .any(|i| *i != t && r.basis[*i] < r.basis[t] && !prefer.contains(&r.basis[*i]));
        if chosen_pref && smaller_unpreferred {
            ctx.probes.tie_broken_by_preference += 1;
        }
    }
    let before = r.value;
    r.pivot(t, h);
    // 5. monotone objective (exact): current_value never decreases
    if r.value < before {
        ctx.v(
            "objective-regressed",
            format!("{at}: exact objective went from {before} to {}", r.value),
        );
    }
    ctx.trace.extend_from_slice(&(h as u16).to_le_bytes());
    ctx.trace.extend_from_slice(&(t as u16).to_le_bytes());
    Some((h, t))
}

fn check_finished(ctx: &mut Ctx, r: &Exact, at: &str) {
    ctx.probes.finished += 1;
    for (j, cj) in r.c.iter().enumerate() {
        if is_edge(*cj) {
            ctx.skip("tolerance-edge reduced cost at termination");
            return;
        }
        if cj.is_neg() {
            ctx.v(
                "not-optimal",
                format!("{at}: reported finished but column {j} still has reduced cost {cj}"),
            );
            return;
        }
    }
}

fn check_unbounded(ctx: &mut Ctx, r: &Exact, at: &str) {
    ctx.probes.unbounded_detected += 1;
    if r.c.iter().any(|c| is_edge(*c)) || r.a.iter().flatten().any(|x| is_edge(*x)) {
        ctx.skip("tolerance-edge data at unbounded report");
        return;
    }
    let genuine = (0..r.c.len())
        .any(|h| !r.basis.contains(&h) && r.c[h].is_neg() && r.a.iter().all(|row| !row[h].is_pos()));
    if !genuine {
        ctx.v(
            "false-unbounded",
            format!("{at}: reported unbounded but no improving column is free of positive entries"),
        );
    }
}

#[derive(Clone, Copy, Debug, PartialEq)]
enum Kind {
    Solve,
    Avoid,
    StepByStep,
    /// `StepByStepSimplexPipe` applied to a `PipeableData::Tableau`: the pipe layer's own
    /// driver (fixed budget of `PIPE_LIMIT`, works on its own copy and hands the state back
    /// inside the result or, on error, next to the error)
    Pipe,
}

/// Iteration budget hard-wired into `StepByStepSimplexPipe`.
const PIPE_LIMIT: i64 = 1000;

#[derive(Debug, Clone, Copy, PartialEq)]
enum Term {
    Finished,
    Unbounded,
    Limit,
    Other,
}

struct DriverOut {
    term: Term,
    optimal_value: Option<f64>,
    /// `variables_values()` of the returned optimal tableau
    values: Option<Vec<f64>>,
    /// rendering of every recorded step of `solve_step_by_step` (the tableau before the pivot)
    steps: Option<Vec<String>>,
    /// the tableau carried by the returned `OptimalTableau`
    returned: Option<Tableau>,
}

fn run_driver(t: &mut Tableau, kind: Kind, limit: i64, prefer: &[usize]) -> DriverOut {
    let fail = |e: SimplexError| DriverOut {
        term: match e {
            SimplexError::Unbounded => Term::Unbounded,
            SimplexError::IterationLimitReached => Term::Limit,
            SimplexError::Other => Term::Other,
        },
        optimal_value: None,
        values: None,
        steps: None,
        returned: None,
    };
    match kind {
        Kind::Solve | Kind::Avoid => {
            let r = if kind == Kind::Solve {
                t.solve(limit)
            } else {
                t.solve_avoiding(limit, prefer)
            };
            match r {
                Ok(o) => DriverOut {
                    term: Term::Finished,
                    optimal_value: Some(o.optimal_value()),
                    values: Some(o.variables_values().clone()),
                    steps: None,
                    returned: Some(o.tableau().clone()),
                },
                Err(e) => fail(e),
            }
        }
        Kind::Pipe => {
            use rooc::pipe::{PipeContext, PipeError, Pipeable, PipeableData, StepByStepSimplexPipe};
            let fns: indexmap::IndexMap<String, Box<dyn rooc::RoocFunction>> =
                indexmap::IndexMap::new();
            let pctx = PipeContext::new(vec![], &fns);
            let mut data = PipeableData::Tableau(t.clone());
            match StepByStepSimplexPipe::new().pipe(&mut data, &pctx) {
                Ok(PipeableData::OptimalTableauWithSteps(o)) => {
                    // the state the stage reached is the one it hands back
                    *t = o.result().tableau().clone();
                    DriverOut {
                        term: Term::Finished,
                        optimal_value: Some(o.result().optimal_value()),
                        values: Some(o.result().variables_values().clone()),
                        steps: Some(o.steps().iter().map(|s| s.to_string()).collect()),
                        returned: Some(o.result().tableau().clone()),
                    }
                }
                Err(PipeError::StepByStepSimplexError(e, state)) => {
                    *t = state;
                    fail(e)
                }
                _ => fail(SimplexError::Other),
            }
        }
        Kind::StepByStep => match t.solve_step_by_step(limit) {
            Ok(o) => DriverOut {
                term: Term::Finished,
                optimal_value: Some(o.result().optimal_value()),
                values: Some(o.result().variables_values().clone()),
                steps: Some(o.steps().iter().map(|s| s.to_string()).collect()),
                returned: Some(o.result().tableau().clone()),
            },
            Err(e) => fail(e),
        },
    }
}

/// Applies one budgeted driver call to the live tableau `t` (exact state `r`), checking
/// every intermediate state by re-running the same call on clones of the pre-state with
/// budgets 1, 2, ... (the interruption fault is what exposes the intermediate states).
fn drive(
    ctx: &mut Ctx,
    t: &mut Tableau,
    r: &mut Exact,
    kind: Kind,
    limit: i64,
    prefer: &[usize],
    liveness: bool,
    at: &str,
) -> Term {
    let before = t.clone();
    let DriverOut {
        term,
        optimal_value,
        values,
        steps,
        returned,
    } = run_driver(t, kind, limit, prefer);
    // renderings of the states before each pivot, as a recorded step shows them
    let mut state_strings: Vec<String> = vec![before.to_string()];
    // enumerate the intermediate states
    const DENSE: i64 = 48;
    let mut j: i64 = 1;
    let mut pivots: i64 = 0;
    let mut stall = 0i64;
    let stall_limit = (r.c.len() + r.a.len()) as i64 + 1;
    let mut prev_value = r.value;
    let mut last_state_fp = fingerprint(&before);
    let mut sampled = false;
    while j <= limit {
        let mut cl = before.clone();
        // the pipe's budget is fixed: its intermediate states are those of the budgeted
        // driver it wraps
        let enum_kind = if kind == Kind::Pipe { Kind::StepByStep } else { kind };
        let tj = run_driver(&mut cl, enum_kind, j, prefer).term;
        if tj != Term::Limit {
            // the trace ended with j-1 pivots; `cl` is the terminal state
            if fingerprint(&cl) != last_state_fp {
                ctx.v(
                    "nondeterministic-trace",
                    format!("{at}: terminal state differs from the state after {pivots} pivots of the same trace"),
                );
            }
            break;
        }
        // state after exactly j pivots (when dense) or a later sampled state
        {
            let nb = cl.in_basis().clone();
            if check_and_apply_pivot(ctx, r, &nb, prefer, &format!("{at} pivot {j}")).is_none() {
                return term;
            }
            check_state(ctx, &cl, r, &format!("{at} after pivot {j}"));
            if ctx.skipped.is_some() || !ctx.violations.is_empty() {
                return term;
            }
            if r.value == prev_value {
                stall += 1;
                if stall > stall_limit {
                    ctx.probes.bland_engaged += 1;
                }
            } else {
                stall = 0;
                prev_value = r.value;
            }
            pivots = j;
            last_state_fp = fingerprint(&cl);
            state_strings.push(cl.to_string());
            j += 1;
            if j > DENSE && j <= limit {
                sampled = true;
                break;
            }
        }
    }
    if sampled {
        // a long trace (only possible when cycling or near it): stop exact tracking here;
        // the outcome of the real call is still judged below where it does not need `r`
        ctx.probes.long_trace_sampled += 1;
        match term {
            Term::Limit if (limit >= FULL_LIMIT || kind == Kind::Pipe) && liveness => ctx.v(
                "cycling",
                format!("{at}: did not finish within {limit} iterations"),
            ),
            _ => {}
        }
        ctx.skip("trace longer than the dense window");
        return term;
    }
    // the live tableau must be where the enumerated trace says it is
    if fingerprint(t) != last_state_fp {
        ctx.v(
            "nondeterministic-trace",
            format!("{at}: live tableau differs from the same call replayed on a snapshot"),
        );
        return term;
    }
    match term {
        Term::Finished => {
            check_finished(ctx, r, at);
            // the tableau handed back inside the OptimalTableau is the method's answer: it
            // must be the terminal dictionary (equivalent, canonical, feasible, optimal),
            // not an earlier one
            if let Some(rt) = &returned {
                let before_violations = ctx.violations.len();
                check_state(ctx, rt, r, &format!("{at}: tableau of the returned OptimalTableau"));
                if ctx.violations.len() > before_violations {
                    return term;
                }
            }
            if let Some(ov) = optimal_value {
                let flip = if t.flip_result() { -1.0 } else { 1.0 };
                let want = -r.value.to_f64() * flip + t.value_offset();
                if (ov - want).abs() > TOL * want.abs().max(1.0) {
                    ctx.v(
                        "optimal-value",
                        format!("{at}: optimal_value() = {ov} but the exact tableau value gives {want}"),
                    );
                }
            }
            if let Some(steps) = &steps {
                if steps.len() as i64 != pivots {
                    ctx.v(
                        "step-record",
                        format!("{at}: solve_step_by_step recorded {} steps for a trace of {pivots} pivots", steps.len()),
                    );
                } else if let Some(i) = (0..steps.len()).find(|i| steps[*i] != state_strings[*i]) {
                    ctx.v(
                        "step-record",
                        format!("{at}: recorded step {i} does not show the tableau the pivot was made from"),
                    );
                }
            }
            if let Some(vals) = &values {
                // the returned values are the basic solution of the final tableau
                let mut want = vec![0.0; t.c_vec().len()];
                for (row, col) in t.in_basis().iter().enumerate() {
                    want[*col] = t.b_vec()[row];
                }
                if vals.len() != want.len()
                    || vals.iter().zip(&want).any(|(a, b)| (a - b).abs() > TOL * b.abs().max(1.0))
                {
                    ctx.v(
                        "returned-values",
                        format!("{at}: variables_values() = {vals:?} but the final basic solution is {want:?}"),
                    );
                }
            }
        }
        Term::Unbounded => check_unbounded(ctx, r, at),
        Term::Limit => {
            ctx.probes.interrupted += 1;
            // (a budget of zero or less allows no pivot at all)
            if pivots != limit.max(0) {
                ctx.v(
                    "iteration-budget",
                    format!("{at}: IterationLimitReached after {pivots} pivots with a budget of {limit}"),
                );
            }
            if (limit >= FULL_LIMIT || kind == Kind::Pipe) && liveness {
                ctx.v(
                    "cycling",
                    format!("{at}: did not finish within {limit} iterations"),
                );
            }
        }
        Term::Other => ctx.v("simplex-error", format!("{at}: SimplexError::Other")),
    }
    term
}

fn run_ops(ctx: &mut Ctx, t: &mut Tableau, r: &mut Exact, ops: &[Op], depth: usize) -> u64 {
    let mut resumed_after_limit = false;
    for (i, op) in ops.iter().enumerate() {
        if ctx.skipped.is_some() || !ctx.violations.is_empty() {
            break;
        }
        let at = format!("op {i} {op:?}");
        if resumed_after_limit {
            ctx.probes.resumed += 1;
        }
        match op {
            Op::Snapshot => {
                if depth >= 2 {
                    continue;
                }
                ctx.probes.snapshots += 1;
                let mut t2 = t.clone();
                let mut r2 = r.clone();
                let rest = &ops[i + 1..];
                let saved_trace_len = ctx.trace.len();
                let h1 = run_ops(ctx, t, r, rest, depth + 1);
                let trace1 = ctx.trace.split_off(saved_trace_len);
                let h2 = run_ops(ctx, &mut t2, &mut r2, rest, depth + 1);
                let trace2 = ctx.trace.split_off(saved_trace_len);
                ctx.trace.extend_from_slice(&trace1);
                if ctx.skipped.is_none() && ctx.violations.is_empty() && (h1 != h2 || trace1 != trace2) {
                    ctx.v(
                        "snapshot-divergence",
                        format!("{at}: a clone continued with the same operations reached a different state"),
                    );
                }
                return fingerprint(t);
            }
            Op::Step { prefer } => {
                let before_exact = r.clone();
                let res = t.step(prefer);
                match res {
                    Ok(StepAction::Pivot {
                        entering,
                        leaving,
                        ratio,
                    }) => {
                        let nb = t.in_basis().clone();
                        if let Some((h, row)) = check_and_apply_pivot(ctx, r, &nb, prefer, &at) {
                            if entering != h || leaving != row {
                                ctx.v(
                                    "step-report",
                                    format!("{at}: reported entering {entering} / leaving row {leaving} but the tableau shows {h} / {row}"),
                                );
                            }
                            let want = before_exact.b[row].div(before_exact.a[row][h]);
                            if !close(ratio, want) {
                                ctx.v(
                                    "step-report",
                                    format!("{at}: reported ratio {ratio}, exact ratio {want}"),
                                );
                            }
                            check_state(ctx, t, r, &format!("{at} after pivot"));
                        }
                    }
                    Ok(StepAction::Finished) => check_finished(ctx, r, &at),
                    Err(SimplexError::Unbounded) => check_unbounded(ctx, r, &at),
                    Err(e) => ctx.v("simplex-error", format!("{at}: step returned {e:?}")),
                }
                resumed_after_limit = false;
            }
            Op::Solve { limit } => {
                let term = drive(ctx, t, r, Kind::Solve, *limit, &[], true, &at);
                resumed_after_limit = term == Term::Limit;
            }
            Op::SolveAvoiding { limit, prefer } => {
                let term = drive(ctx, t, r, Kind::Avoid, *limit, prefer, prefer.is_empty(), &at);
                resumed_after_limit = term == Term::Limit;
            }
            Op::SolveStepByStep { limit } => {
                let term = drive(ctx, t, r, Kind::StepByStep, *limit, &[], true, &at);
                resumed_after_limit = term == Term::Limit;
            }
        }
    }
    fingerprint(t)
}

fn phase1_tableau(a: &[Vec<f64>], b: &[f64]) -> (Tableau, Vec<usize>) {
    let m = a.len();
    let n = a.first().map_or(0, |r| r.len());
    let mut rows: Vec<Vec<f64>> = a.to_vec();
    let mut c = vec![0.0; n + m];
    let mut value = 0.0;
    for (i, row) in rows.iter_mut().enumerate() {
        row.resize(n + m, 0.0);
        row[n + i] = 1.0;
        for j in 0..n {
            c[j] -= row[j];
        }
        value -= b[i];
    }
    let basis: Vec<usize> = (n..n + m).collect();
    let vars: Vec<String> = (0..n)
        .map(|j| format!("x{j}"))
        .chain((0..m).map(|i| format!("$a_{i}")))
        .collect();
    (
        Tableau::new(c, rows, b.to_vec(), basis.clone(), value, 0.0, vars, false),
        basis,
    )
}

/// The standard-form system of a continuous `GenModel` as the oracle sees it, used only to
/// decide whether an `Infesible` start is genuine and to cross-check the final optimum.
fn model_truth(m: &GenModel) -> Verdict {
    oracle::decide(m).verdict
}

pub fn run_tableau_case(case: &TableauCase) -> TableauRun {
    match case.clock {
        None => run_tableau_case_inner(case),
        Some(sched) => {
            web_time::sim::install(sched.to_clock(), 0);
            let out = std::panic::catch_unwind(std::panic::AssertUnwindSafe(|| run_tableau_case_inner(case)));
            web_time::sim::uninstall();
            match out {
                Ok(r) => r,
                Err(p) => std::panic::resume_unwind(p),
            }
        }
    }
}

fn run_tableau_case_inner(case: &TableauCase) -> TableauRun {
    let mut ctx = Ctx {
        violations: Vec::new(),
        skipped: None,
        probes: Probes::default(),
        trace: Vec::new(),
        states: 0,
        a0: Vec::new(),
        b0: Vec::new(),
        slack: 0.0,
    };
    let finish = |ctx: Ctx| TableauRun {
        trace_hash: fnv(&ctx.trace),
        states: ctx.states,
        violations: ctx.violations,
        skipped: ctx.skipped,
        probes: ctx.probes,
    };
    let mut model_verdict: Option<Verdict> = None;
    let mut phase1_prefer: Vec<usize> = Vec::new();
    let (t0, exact_data) = match &case.source {
        TableauSource::Canonical {
            c,
            a,
            b,
            basis,
            value,
        } => {
            let vars = (0..c.len()).map(|j| format!("x{j}")).collect();
            (
                Tableau::new(
                    c.clone(),
                    a.clone(),
                    b.clone(),
                    basis.clone(),
                    *value,
                    case.offset,
                    vars,
                    case.flip,
                ),
                true,
            )
        }
        TableauSource::Phase1 { a, b } => {
            let (t, pref) = phase1_tableau(a, b);
            phase1_prefer = pref;
            (t, true)
        }
        TableauSource::Model(m) => {
            let truth = model_truth(m);
            model_verdict = Some(truth);
            let std = match to_linear_model(m).into_standard_form() {
                Ok(s) => s,
                Err(e) => {
                    ctx.v("standard-form", format!("into_standard_form failed: {e}"));
                    return finish(ctx);
                }
            };
            match std.into_tableau() {
                Ok(t) => {
                    if truth == Verdict::Infeasible {
                        ctx.v(
                            "canonical-start",
                            "into_tableau produced a canonical tableau for an infeasible model".into(),
                        );
                        return finish(ctx);
                    }
                    (t, false)
                }
                Err(rooc::CanonicalTransformError::Infesible(_)) => {
                    ctx.probes.infeasible_start += 1;
                    if truth != Verdict::Infeasible {
                        ctx.v(
                            "canonical-start",
                            format!("into_tableau says infeasible; the model is {}", truth.tag()),
                        );
                    }
                    return finish(ctx);
                }
                Err(e) => {
                    ctx.v("canonical-start", format!("into_tableau failed: {e}"));
                    return finish(ctx);
                }
            }
        }
    };
    let Some(r0) = exact_from(&t0, exact_data) else {
        ctx.skip("initial tableau has no small-rational reading");
        return finish(ctx);
    };
    if r0
        .a
        .iter()
        .flatten()
        .chain(r0.b.iter())
        .chain(r0.c.iter())
        .any(|q| is_edge(*q))
    {
        ctx.skip("tolerance-edge initial data");
        return finish(ctx);
    }
    ctx.a0 = r0.a.clone();
    ctx.b0 = r0.b.clone();
    ctx.slack = 1e-12
        * r0.a
            .iter()
            .flatten()
            .chain(r0.b.iter())
            .chain(r0.c.iter())
            .map(|q| q.to_f64().abs())
            .fold(0.0, f64::max);
    // canonical start
    {
        let m = r0.a.len();
        let w = r0.c.len();
        let mut ok = r0.basis.len() == m && r0.b.len() == m && r0.a.iter().all(|row| row.len() == w);
        if ok {
            let mut seen = std::collections::BTreeSet::new();
            for (row, col) in r0.basis.iter().enumerate() {
                if *col >= w || !seen.insert(*col) {
                    ok = false;
                    break;
                }
                for i in 0..m {
                    let want = if i == row { Q::ONE } else { Q::ZERO };
                    if r0.a[i][*col] != want {
                        ok = false;
                    }
                }
                if !r0.c[*col].is_zero() {
                    ok = false;
                }
            }
            if r0.b.iter().any(|x| x.is_neg()) {
                ok = false;
            }
        }
        if !ok {
            ctx.v(
                "canonical-start",
                format!(
                    "starting tableau is not canonical: basis {:?}, b {:?}",
                    r0.basis,
                    r0.b.iter().map(|q| q.to_string()).collect::<Vec<_>>()
                ),
            );
            return finish(ctx);
        }
    }
    if matches!(case.source, TableauSource::Model(_)) {
        let names = t0.variables();
        if !names.iter().any(|n| n.starts_with("$sl_") || n.starts_with("$su_"))
            || t0.in_basis().iter().any(|j| !names[*j].starts_with("$sl_"))
        {
            ctx.probes.two_phase_start += 1;
        }
    }
    check_state(&mut ctx, &t0, &r0, "initial tableau");
    if ctx.skipped.is_some() || !ctx.violations.is_empty() {
        return finish(ctx);
    }

    // independent exact optimum of the initial tableau's own system
    let lp_truth = if r0.c.len().saturating_sub(r0.a.len()) > 4 {
        None
    } else {
        let w = r0.c.len();
        let cons: Vec<ConQ> = r0
            .a
            .iter()
            .zip(&r0.b)
            .map(|(row, b)| ConQ {
                a: row.clone(),
                cmp: Cmp::Eq,
                b: *b,
            })
            .collect();
        let bounds = vec![(Some(Q::ZERO), None); w];
        // a redundant cross-check: if the elimination overflows its i128 rationals (badly
        // scaled costs) it is simply not available; exact reduced costs still decide
        match std::panic::catch_unwind(std::panic::AssertUnwindSafe(|| {
            oracle::lp_extreme(w, &cons, &bounds, &r0.c, false)
        })) {
            Ok(v) => Some(v),
            Err(p) => {
                if crate::solvers::panic_message(p.as_ref()).contains("Q overflow") {
                    None
                } else {
                    std::panic::resume_unwind(p)
                }
            }
        }
    };

    // A. every prefix of the uninterrupted solve
    if case.prefixes {
        let mut t = t0.clone();
        let mut r = r0.clone();
        let prefer = phase1_prefer.clone();
        let kind = if prefer.is_empty() { Kind::Solve } else { Kind::Avoid };
        let term = drive(&mut ctx, &mut t, &mut r, kind, FULL_LIMIT, &prefer, true, "uninterrupted solve");
        if ctx.skipped.is_none() && ctx.violations.is_empty() {
            if let Some(lp_truth) = lp_truth { match (term, lp_truth) {
                (Term::Finished, Verdict::Optimal(z)) => {
                    // z(x) = -value0 + c0.x ; at the end z* = -value_final
                    let want = z.sub(r0.value);
                    if r.value.neg() != want {
                        ctx.v(
                            "not-optimal",
                            format!("uninterrupted solve finished with exact value {} but the optimum of the initial system is {}", r.value.neg(), want),
                        );
                    }
                }
                (Term::Finished, other) => ctx.v(
                    "not-optimal",
                    format!("uninterrupted solve finished but the initial system is {}", other.tag()),
                ),
                (Term::Unbounded, Verdict::Unbounded) => {}
                (Term::Unbounded, other) => ctx.v(
                    "false-unbounded",
                    format!("uninterrupted solve reported unbounded but the initial system is {}", other.tag()),
                ),
                _ => {}
            } }
            if let (Some(mv), TableauSource::Model(m)) = (model_verdict, &case.source) {
                match (term, mv) {
                    (Term::Finished, Verdict::Optimal(opt)) => {
                        let flip = if t.flip_result() { Q::ONE.neg() } else { Q::ONE };
                        let got = r.value.neg().mul(flip).add(Q::from_f64(t.value_offset()));
                        // the rationalised start may carry 1e-9 noise: compare as floats
                        if (got.to_f64() - opt.to_f64()).abs() > TOL * opt.to_f64().abs().max(1.0) {
                            ctx.v(
                                "end-to-end-optimum",
                                format!("tableau optimum {} but the model's exact optimum is {opt} ({})", got, m),
                            );
                        }
                    }
                    (Term::Finished, other) => ctx.v(
                        "end-to-end-optimum",
                        format!("tableau finished but the model is {}", other.tag()),
                    ),
                    (Term::Unbounded, Verdict::Unbounded) => {}
                    (Term::Unbounded, other) => ctx.v(
                        "end-to-end-optimum",
                        format!("tableau says unbounded but the model is {}", other.tag()),
                    ),
                    _ => {}
                }
            }
        }
    }
    if ctx.skipped.is_some() || !ctx.violations.is_empty() {
        return finish(ctx);
    }

    // A2. the other uninterrupted driver (its loop, stall counter and Bland switch are a
    // separate copy of the code): every prefix of solve_step_by_step as well
    if case.prefixes {
        let mut t = t0.clone();
        let mut r = r0.clone();
        let saved = std::mem::take(&mut ctx.trace);
        let term = drive(
            &mut ctx,
            &mut t,
            &mut r,
            Kind::StepByStep,
            FULL_LIMIT,
            &[],
            true,
            "uninterrupted solve_step_by_step",
        );
        let sbs_trace = std::mem::replace(&mut ctx.trace, saved);
        if ctx.skipped.is_none() && ctx.violations.is_empty() {
            if let Some(lp_truth) = lp_truth {
                match (term, lp_truth) {
                    (Term::Finished, Verdict::Optimal(z)) => {
                        let want = z.sub(r0.value);
                        if r.value.neg() != want {
                            ctx.v(
                                "not-optimal",
                                format!("uninterrupted solve_step_by_step finished with exact value {} but the optimum of the initial system is {}", r.value.neg(), want),
                            );
                        }
                    }
                    (Term::Finished, other) => ctx.v(
                        "not-optimal",
                        format!("uninterrupted solve_step_by_step finished but the initial system is {}", other.tag()),
                    ),
                    (Term::Unbounded, Verdict::Unbounded) => {}
                    (Term::Unbounded, other) => ctx.v(
                        "false-unbounded",
                        format!("uninterrupted solve_step_by_step reported unbounded but the initial system is {}", other.tag()),
                    ),
                    _ => {}
                }
            }
        }
        ctx.trace.extend_from_slice(&sbs_trace);
    }
    if ctx.skipped.is_some() || !ctx.violations.is_empty() {
        return finish(ctx);
    }

    // A3. the pipe layer's driver (`StepByStepSimplexPipe` on the start tableau): the state
    // it hands back must be the terminal state of the same trace, its recorded steps and
    // returned tableau are judged like those of solve_step_by_step
    if case.prefixes {
        let mut t = t0.clone();
        let mut r = r0.clone();
        let saved = std::mem::take(&mut ctx.trace);
        let term = drive(
            &mut ctx,
            &mut t,
            &mut r,
            Kind::Pipe,
            PIPE_LIMIT,
            &[],
            true,
            "StepByStepSimplexPipe",
        );
        ctx.trace = saved;
        ctx.probes.pipe_driver += 1;
        if ctx.skipped.is_none() && ctx.violations.is_empty() {
            if let Some(lp_truth) = lp_truth {
                match (term, lp_truth) {
                    (Term::Finished, Verdict::Optimal(z)) => {
                        let want = z.sub(r0.value);
                        if r.value.neg() != want {
                            ctx.v(
                                "not-optimal",
                                format!("StepByStepSimplexPipe finished with exact value {} but the optimum of the initial system is {}", r.value.neg(), want),
                            );
                        }
                    }
                    (Term::Finished, other) => ctx.v(
                        "not-optimal",
                        format!("StepByStepSimplexPipe finished but the initial system is {}", other.tag()),
                    ),
                    (Term::Unbounded, Verdict::Unbounded) => {}
                    (Term::Unbounded, other) => ctx.v(
                        "false-unbounded",
                        format!("StepByStepSimplexPipe reported unbounded but the initial system is {}", other.tag()),
                    ),
                    _ => {}
                }
            }
        }
    }
    if ctx.skipped.is_some() || !ctx.violations.is_empty() {
        return finish(ctx);
    }

    // B. the seeded driver schedule on a fresh copy
    if !case.ops.is_empty() {
        let mut t = t0.clone();
        let mut r = r0.clone();
        let unint_trace = ctx.trace.clone();
        ctx.trace.clear();
        run_ops(&mut ctx, &mut t, &mut r, &case.ops, 0);
        if case.prefixes && !ctx.trace.is_empty() && !unint_trace.starts_with(&ctx.trace) && !ctx.trace.starts_with(&unint_trace) {
            ctx.probes.resume_changed_sequence += 1;
        }
        let mut all = unint_trace;
        all.extend_from_slice(&ctx.trace);
        ctx.trace = all;
    }
    finish(ctx)
}

// ---------------------------------------------------------------------------------------
// generation

use crate::generate::{self, GenLimits};
use crate::rng::Rng;

/// Classical cycling examples (dyadic data, exact in f64), as canonical tableaux.
pub fn classic_cases() -> Vec<(String, TableauSource)> {
    let mut out = Vec::new();
    // Beale (1955): min -3/4 x4 + 20 x5 - 1/2 x6 + 6 x7
    out.push((
        "beale".to_string(),
        TableauSource::Canonical {
            c: vec![0.0, 0.0, 0.0, -0.75, 20.0, -0.5, 6.0],
            a: vec![
                vec![1.0, 0.0, 0.0, 0.25, -8.0, -1.0, 9.0],
                vec![0.0, 1.0, 0.0, 0.5, -12.0, -0.5, 3.0],
                vec![0.0, 0.0, 1.0, 0.0, 0.0, 1.0, 0.0],
            ],
            b: vec![0.0, 0.0, 1.0],
            basis: vec![0, 1, 2],
            value: 0.0,
        },
    ));
    // Marshall & Suurballe style: min -2x4 - 3x5 + x6 + 12x7
    out.push((
        "marshall-suurballe".to_string(),
        TableauSource::Canonical {
            c: vec![0.0, 0.0, 0.0, -2.0, -3.0, 1.0, 12.0],
            a: vec![
                vec![1.0, 0.0, 0.0, -2.0, -9.0, 1.0, 9.0],
                vec![0.0, 1.0, 0.0, 0.5, 1.0, -0.25, -2.0],
                vec![0.0, 0.0, 1.0, 0.0, 0.0, 1.0, 0.0],
            ],
            b: vec![0.0, 0.0, 2.0],
            basis: vec![0, 1, 2],
            value: 0.0,
        },
    ));
    // Chvatal's cycling example: max 10x1 - 57x2 - 9x3 - 24x4
    out.push((
        "chvatal".to_string(),
        TableauSource::Canonical {
            c: vec![-10.0, 57.0, 9.0, 24.0, 0.0, 0.0, 0.0],
            a: vec![
                vec![0.5, -5.5, -2.5, 9.0, 1.0, 0.0, 0.0],
                vec![0.5, -1.5, -0.5, 1.0, 0.0, 1.0, 0.0],
                vec![1.0, 0.0, 0.0, 0.0, 0.0, 0.0, 1.0],
            ],
            b: vec![0.0, 0.0, 1.0],
            basis: vec![4, 5, 6],
            value: 0.0,
        },
    ));
    // Kuhn's example
    out.push((
        "kuhn".to_string(),
        TableauSource::Canonical {
            c: vec![-2.0, -3.0, 1.0, 12.0, 0.0, 0.0, 0.0],
            a: vec![
                vec![-2.0, -9.0, 1.0, 9.0, 1.0, 0.0, 0.0],
                vec![1.0 / 4.0 * 2.0, 1.0, -0.25, -2.0, 0.0, 1.0, 0.0],
                vec![2.0, 3.0, -1.0, -12.0, 0.0, 0.0, 1.0],
            ],
            b: vec![0.0, 0.0, 2.0],
            basis: vec![4, 5, 6],
            value: 0.0,
        },
    ));
    out
}

/// The same canonical tableau with its columns and rows permuted.
fn relabel(rng: &mut Rng, block: &TableauSource) -> TableauSource {
    let TableauSource::Canonical {
        c,
        a,
        b,
        basis,
        value,
    } = block
    else {
        return block.clone();
    };
    let w = c.len();
    let m = a.len();
    let mut col_of: Vec<usize> = (0..w).collect(); // new position -> old column
    rng.shuffle(&mut col_of);
    let mut new_pos = vec![0usize; w];
    for (np, oc) in col_of.iter().enumerate() {
        new_pos[*oc] = np;
    }
    let mut row_of: Vec<usize> = (0..m).collect();
    rng.shuffle(&mut row_of);
    TableauSource::Canonical {
        c: col_of.iter().map(|oc| c[*oc]).collect(),
        a: row_of
            .iter()
            .map(|or| col_of.iter().map(|oc| a[*or][*oc]).collect())
            .collect(),
        b: row_of.iter().map(|or| b[*or]).collect(),
        basis: row_of.iter().map(|or| new_pos[basis[*or]]).collect(),
        value: *value,
    }
}

/// Block-diagonal composition of a (cycling-prone) canonical tableau with an independent
/// "box" block whose columns improve the objective strictly: the solver makes improving
/// pivots first (or in between) and meets the degenerate vertex later in the trace.
fn compose_with_improving_box(rng: &mut Rng, block: &TableauSource) -> TableauSource {
    let TableauSource::Canonical {
        c: c1,
        a: a1,
        b: b1,
        basis: basis1,
        value,
    } = block
    else {
        return block.clone();
    };
    let k = rng.usize(1, 2);
    let (m1, w1) = (a1.len(), c1.len());
    let w2 = 2 * k;
    let box_first = rng.chance(1, 2);
    let (off1, off2) = if box_first { (w2, 0) } else { (0, w1) };
    let w = w1 + w2;
    let mut c = vec![0.0; w];
    let mut a = vec![vec![0.0; w]; m1 + k];
    let mut b = vec![0.0; m1 + k];
    let mut basis = vec![0usize; m1 + k];
    let (row1, row2) = if box_first { (k, 0) } else { (0, m1) };
    for j in 0..w1 {
        c[off1 + j] = c1[j];
    }
    for i in 0..m1 {
        for j in 0..w1 {
            a[row1 + i][off1 + j] = a1[i][j];
        }
        b[row1 + i] = b1[i];
        basis[row1 + i] = off1 + basis1[i];
    }
    for i in 0..k {
        // y_i + s_i = u_i, cost(y_i) < 0: more negative than anything in the block, or less
        let cost = *rng.pick(&[-100.0, -200.0, -1.0, -0.25, -30.0]);
        c[off2 + 2 * i] = cost;
        a[row2 + i][off2 + 2 * i] = rng.range(1, 3) as f64;
        a[row2 + i][off2 + 2 * i + 1] = 1.0;
        b[row2 + i] = rng.range(1, 5) as f64;
        basis[row2 + i] = off2 + 2 * i + 1;
    }
    TableauSource::Canonical {
        c,
        a,
        b,
        basis,
        value: *value,
    }
}

fn gen_canonical(rng: &mut Rng) -> TableauSource {
    let deep = rng.chance(3, 5);
    let m = if deep { rng.usize(2, 5) } else { rng.usize(1, 4) };
    let n = if deep { rng.usize(3, 6) } else { rng.usize(1, 5) };
    let w = n + m;
    // where the identity lives: last m columns, first m columns, or interleaved
    let mut cols: Vec<usize> = (0..w).collect();
    match rng.below(3) {
        0 => {}
        1 => cols.rotate_right(m),
        _ => rng.shuffle(&mut cols),
    }
    let basis: Vec<usize> = cols[n..].to_vec();
    let nonbasic: Vec<usize> = cols[..n].to_vec();
    let zero_rhs_pct = *rng.pick(&[0u64, 10, 40, 80, 100]);
    let small = rng.chance(1, 2);
    let mut a = vec![vec![0.0; w]; m];
    let mut b = vec![0.0; m];
    let shared_ratio = rng.chance(1, 3);
    for i in 0..m {
        a[i][basis[i]] = 1.0;
        for j in &nonbasic {
            a[i][*j] = match rng.weighted(if deep { &[10, 70, 10, 10] } else { &[20, 50, 20, 10] }) {
                0 => 0.0,
                1 => rng.range(1, if small { 2 } else { 7 }) as f64,
                2 => -(rng.range(1, if small { 2 } else { 7 }) as f64),
                _ => rng.range(-4, 4) as f64 / 2.0,
            };
        }
        b[i] = if rng.chance(zero_rhs_pct, 100) {
            0.0
        } else {
            rng.range(1, 12) as f64
        };
    }
    if shared_ratio && m >= 2 && !nonbasic.is_empty() {
        // duplicate ratios in one column: b_i / a_ih equal for all rows
        let h = nonbasic[rng.usize(0, n - 1)];
        let ratio = rng.range(0, 3) as f64;
        for i in 0..m {
            let aih = rng.range(1, 4) as f64;
            a[i][h] = aih;
            b[i] = ratio * aih;
        }
    }
    let mut c = vec![0.0; w];
    for j in &nonbasic {
        c[*j] = match rng.weighted(if deep { &[5, 85, 10] } else { &[15, 55, 30] }) {
            0 => 0.0,
            1 => -(rng.range(1, 9) as f64),
            _ => rng.range(1, 9) as f64,
        };
    }
    // badly scaled objective: a penalty-sized cost next to unit costs (exact in f64)
    if rng.chance(1, 6) {
        let j = nonbasic[rng.usize(0, n - 1)];
        let big = *rng.pick(&[100_000.0, 1_000_000.0, 2_000_000.0]);
        c[j] = if rng.chance(1, 2) { big } else { -big };
    }
    else if rng.chance(1, 7) {
        // a big-M style row: one row multiplied through by 1e5..1e7 (an equivalent system,
        // exact in f64). When it is the pivot row, the elimination factors of the other
        // rows are 1e-5 and smaller while the quantities they multiply are pivot-sized.
        let k = *rng.pick(&[100_000.0, 1_000_000.0, 10_000_000.0]);
        let i = rng.usize(0, m - 1);
        for v in a[i].iter_mut() {
            *v *= k;
        }
        b[i] *= k;
        // its basic column must stay a unit column: rescale that column's cost-free slack
        // by dividing the column back (the basic variable is measured in units of k)
        a[i][basis[i]] = 1.0;
    } else if rng.chance(1, 6) {
        // large right-hand sides that differ by a unit or two: ratios of magnitude 1e5+
        // whose differences are tiny relative to their size and plain in absolute terms
        // (all exact in f64)
        let k = *rng.pick(&[100_000.0, 200_000.0, 1_000_000.0, 5_000_000.0]);
        for bi in b.iter_mut() {
            if *bi != 0.0 || rng.chance(1, 2) {
                *bi = k + rng.range(0, 3) as f64;
            }
        }
    }
    TableauSource::Canonical {
        c,
        a,
        b,
        basis,
        value: 0.0,
    }
}

fn gen_phase1(rng: &mut Rng) -> TableauSource {
    let m = rng.usize(1, 5);
    let n = rng.usize(1, 6);
    let dependent = m >= 2 && rng.chance(1, 3);
    let feasible_pct = 70;
    let star: Vec<f64> = (0..n).map(|_| rng.range(0, 3) as f64).collect();
    let mut a: Vec<Vec<f64>> = (0..m)
        .map(|_| (0..n).map(|_| rng.range(-3, 4) as f64).collect())
        .collect();
    let mut b: Vec<f64> = a
        .iter()
        .map(|row| row.iter().zip(&star).map(|(c, x)| c * x).sum::<f64>())
        .collect();
    if dependent {
        let (r0, r1) = (a[0].clone(), a[1].clone());
        let last = m - 1;
        if last >= 2 || m == 2 {
            let tgt = if m == 2 { 1 } else { last };
            a[tgt] = r0.iter().zip(&r1).map(|(x, y)| x + if m == 2 { 0.0 } else { *y }).collect();
            b[tgt] = b[0] + if m == 2 { 0.0 } else { b[1] };
        }
    }
    for i in 0..m {
        if !rng.chance(feasible_pct, 100) {
            b[i] += rng.range(1, 3) as f64;
        }
        if b[i] < 0.0 {
            b[i] = -b[i];
            for x in a[i].iter_mut() {
                *x = -*x;
            }
        }
    }
    TableauSource::Phase1 { a, b }
}

fn gen_prefer(rng: &mut Rng, w: usize, phase1: &[usize]) -> Vec<usize> {
    match rng.below(4) {
        0 => Vec::new(),
        1 if !phase1.is_empty() => phase1.to_vec(),
        _ => {
            let k = rng.usize(0, w.min(4));
            let mut v: Vec<usize> = (0..k).map(|_| rng.usize(0, w.saturating_sub(1))).collect();
            v.sort();
            v.dedup();
            v
        }
    }
}

fn gen_ops(rng: &mut Rng, w: usize, phase1: &[usize]) -> Vec<Op> {
    let len = rng.usize(1, 6);
    let mut ops = Vec::new();
    let mut snapshots = 0;
    for _ in 0..len {
        let op = match rng.weighted(&[35, 15, 20, 15, 15]) {
            0 => Op::Step {
                prefer: gen_prefer(rng, w, phase1),
            },
            1 => Op::Solve {
                limit: *rng.pick(&[0i64, 1, 2, 3, 5, FULL_LIMIT, FULL_LIMIT, -1, i64::MIN]),
            },
            2 => Op::SolveAvoiding {
                limit: *rng.pick(&[1i64, 2, 3, 4, 8, FULL_LIMIT, FULL_LIMIT, 0, -3]),
                prefer: gen_prefer(rng, w, phase1),
            },
            3 => Op::SolveStepByStep {
                limit: *rng.pick(&[1i64, 2, 3, 6, FULL_LIMIT, FULL_LIMIT, 0, -2]),
            },
            _ => {
                if snapshots < 2 {
                    snapshots += 1;
                    Op::Snapshot
                } else {
                    Op::Step { prefer: Vec::new() }
                }
            }
        };
        ops.push(op);
    }
    // usually end with a completion so that terminal checks run after resumes
    if rng.chance(2, 3) {
        ops.push(if rng.chance(1, 2) {
            Op::Solve { limit: FULL_LIMIT }
        } else {
            Op::SolveStepByStep { limit: FULL_LIMIT }
        });
    }
    ops
}

pub const TABLEAU_LIMITS: GenLimits = GenLimits {
    continuous_only: true,
    max_int_points: 1,
    max_cont: 4,
    max_rows: 4,
    allow_satisfy: false,
    integer_data: true,
};

/// Weights over `generate::ALL_FAMILIES` for continuous models fed to the tableau.
pub const TABLEAU_FAMILY_WEIGHTS: [u64; 17] = [0, 0, 0, 0, 0, 30, 10, 8, 0, 0, 0, 18, 24, 5, 5, 0, 0];

pub fn gen_case(rng: &mut Rng, index: u64) -> (String, TableauCase) {
    let classics = classic_cases();
    if (index as usize) < classics.len() * 4 {
        // the classical cycling examples, each under four different driver schedules
        let (name, source) = classics[index as usize % classics.len()].clone();
        let w = match &source {
            TableauSource::Canonical { c, .. } => c.len(),
            _ => 0,
        };
        let ops = if index as usize / classics.len() == 0 {
            Vec::new()
        } else {
            gen_ops(rng, w, &[])
        };
        return (
            format!("classic:{name}"),
            TableauCase {
                flip: rng.chance(1, 2),
                offset: if rng.chance(1, 2) { 0.0 } else { rng.range(-9, 9) as f64 },
                source,
                prefixes: true,
                ops,
                clock: gen_clock(rng),
            },
        );
    }
    let (kind, source) = match rng.weighted(&[33, 28, 20, 10, 9]) {
        4 => {
            // a classical cycling example with its columns and rows relabelled: whether a
            // pivoting rule cycles depends on the index order its tie-breaks look at
            let (name, block) = classics[rng.usize(0, classics.len() - 1)].clone();
            (format!("relabelled:{name}"), relabel(rng, &block))
        }
        3 => {
            let (name, block) = classics[rng.usize(0, classics.len() - 1)].clone();
            (format!("composite:{name}"), compose_with_improving_box(rng, &block))
        }
        0 => {
            let (fam, m) = generate::gen_model(rng, &TABLEAU_FAMILY_WEIGHTS, &TABLEAU_LIMITS);
            let mut m = m;
            if m.sense == Sense::Satisfy {
                m.sense = Sense::Min;
            }
            // (badly scaled objectives are generated for the canonical inputs only: the
            // start tableau of a model is read back as small rationals, which a 1e6-sized
            // coefficient divided by a pivot no longer is)
            // keep the standard form small: at most 9 columns is the documented size class
            (format!("model:{}", fam.name()), TableauSource::Model(m))
        }
        1 => ("canonical".to_string(), gen_canonical(rng)),
        _ => ("phase1".to_string(), gen_phase1(rng)),
    };
    let (w, phase1): (usize, Vec<usize>) = match &source {
        TableauSource::Canonical { c, .. } => (c.len(), Vec::new()),
        TableauSource::Phase1 { a, .. } => {
            let n = a.first().map_or(0, |r| r.len());
            (n + a.len(), (n..n + a.len()).collect())
        }
        TableauSource::Model(m) => (
            m.n() + m.rows.len() + m.vars.iter().filter(|v| matches!(v.dom, Dom::Real { .. })).count(),
            Vec::new(),
        ),
    };
    let ops = if rng.chance(4, 5) {
        gen_ops(rng, w, &phase1)
    } else {
        Vec::new()
    };
    (
        kind,
        TableauCase {
            flip: rng.chance(1, 2),
            offset: if rng.chance(1, 2) { 0.0 } else { rng.range(-9, 9) as f64 },
            source,
            prefixes: true,
            ops,
            clock: gen_clock(rng),
        },
    )
}

fn gen_clock(rng: &mut Rng) -> Option<crate::solvers::Sched> {
    use crate::solvers::Sched;
    match rng.weighted(&[50, 25, 25]) {
        0 => None,
        1 => Some(Sched::JumpAt {
            k: rng.range(1, 6) as u64,
            nanos: 1u64 << rng.range(20, 62),
        }),
        _ => Some(Sched::Ticks {
            seed: rng.next_u64(),
            mix: rng.below(4) as u8,
        }),
    }
}
