//! Exploration units: one unit = one seeded input (model / tableau / source model) together
//! with the complete enumeration of its interruption points and a seeded set of further
//! clock / driver schedules. A unit is a pure function of (unit seed, code under test).

use crate::bounds_world::{self, BoundsCase};
use crate::case::{run_solver_case, truth_of, Case, SolverCase, Violation};
use crate::generate::{self, GenLimits};
use crate::model::GenModel;
use crate::oracle::Verdict;
use crate::rng::{fnv, Rng};
use crate::solvers::{
    self, DirectStatus, Entry, GapSpec, Label, LimitSpec, Outcome, RunCfg, RunResult, Sched,
    ALL_ENTRIES,
};
use crate::tableau_world::{self, TableauCase};
use serde_json::json;
use std::collections::BTreeMap;

#[derive(Clone, Copy, Debug, PartialEq, Eq)]
pub enum Tier {
    Quick,
    Thorough,
}

#[derive(Default)]
pub struct UnitReport {
    /// simulated executions of the system under test
    pub evaluations: u64,
    /// hashes of the distinct non-trivial cases this unit explored (rule stated per check)
    pub nontrivial: Vec<u64>,
    /// hashes of distinct states / interleavings reached (measure stated per check)
    pub states: Vec<u64>,
    /// fault kinds fired, probes, per-entry counts
    pub counters: BTreeMap<String, u64>,
    pub failures: Vec<(Case, Violation)>,
    pub harness_errors: Vec<String>,
    pub sample: Option<serde_json::Value>,
    pub sim_nanos: u128,
    /// order-sensitive digest of everything observable in this unit (determinism self-check)
    pub digest: u64,
}

impl UnitReport {
    fn count(&mut self, key: &str) {
        *self.counters.entry(key.to_string()).or_insert(0) += 1;
    }
    fn add(&mut self, key: &str, n: u64) {
        *self.counters.entry(key.to_string()).or_insert(0) += n;
    }
    fn mix(&mut self, s: &str) {
        self.digest = fnv(format!("{:016x}|{s}", self.digest).as_bytes());
    }
}

fn model_hash(m: &GenModel) -> u64 {
    fnv(serde_json::to_string(m).unwrap().as_bytes())
}

/// Clock-read budget for one solve of `m`: far above anything a terminating run needs
/// (measured: root LP and each node LP read the clock once or twice; a full tree on the
/// generated sizes has at most 2 * int_points nodes), so exceeding it means a loop that
/// polls the clock every 1000 iterations has gone round at least ~10^5 times on a model
/// with at most a few hundred bases.
pub fn read_budget(m: &GenModel) -> u64 {
    if m.int_points() > 4096 {
        // deep-search family (hundreds of thousands of nodes by construction, no free
        // variables): bounded generously, two reads per node and more
        return 400_000_000;
    }
    300 + 8 * m.int_points().min(4096)
}

/// One unit in `DEEP_RATE` explores a deep search: a planted subset-sum feasibility model
/// with 20-22 Booleans and weights of the order 2^n, on which microlp needs 10^4 - 10^6
/// branch & bound nodes before the first (and only) integer-feasible point. Decided exactly
/// by Gray-code enumeration. This is how the simulator reaches behaviour that depends on
/// the amount of search work rather than on the clock.
const DEEP_RATE: u64 = 2_000;

fn maybe_deep_model(rng: &mut Rng) -> Option<GenModel> {
    if !rng.chance(1, DEEP_RATE) {
        return None;
    }
    let n = *rng.pick(&[20usize, 21, 22]);
    let planted = rng.chance(7, 8);
    // an infeasible instance must be exhausted: keep it smaller
    let n = if planted { n } else { 16 };
    Some(generate::gen_subset_sum(rng, n, 1, planted))
}

const LIMIT_PALETTE: [LimitSpec; 7] = [
    LimitSpec::Dur { secs: 0, nanos: 1 },
    LimitSpec::Dur {
        secs: 0,
        nanos: 1_000,
    },
    LimitSpec::Dur {
        secs: 0,
        nanos: 1_000_000,
    },
    LimitSpec::Dur { secs: 1, nanos: 0 },
    LimitSpec::Dur {
        secs: 3600,
        nanos: 0,
    },
    LimitSpec::Dur {
        secs: 1 << 30,
        nanos: 5,
    },
    LimitSpec::HUGE,
];

fn pick_gap(rng: &mut Rng) -> GapSpec {
    match rng.weighted(&[35, 8, 8, 10, 12, 12, 8, 7, 2, 2, 2]) {
        8 => GapSpec::Val(-0.0),
        9 => GapSpec::Val(5e-324),
        10 => GapSpec::Val(f64::MAX),
        0 => GapSpec::Unset,
        1 => GapSpec::Val(0.0),
        2 => GapSpec::Val(1e-9),
        3 => GapSpec::Val(1e-3),
        4 => GapSpec::Val(0.05),
        5 => GapSpec::Val(0.5),
        6 => GapSpec::Val(10.0),
        _ => GapSpec::Val(1e9),
    }
}

const INVALID_GAPS: [GapSpec; 6] = [
    GapSpec::NegInf,
    GapSpec::PosInf,
    GapSpec::Nan,
    GapSpec::Val(-0.5),
    GapSpec::Val(-1e-9),
    GapSpec::Val(-1e300),
];

/// MILP-biased weights over `generate::ALL_FAMILIES`.
const C15_WEIGHTS: [u64; 17] = [22, 10, 8, 12, 14, 5, 2, 4, 5, 4, 4, 4, 2, 2, 2, 1, 1];
/// Everything, for the solver-agreement worlds.
const C0405_WEIGHTS: [u64; 17] = [6, 4, 3, 8, 12, 18, 8, 6, 4, 5, 4, 8, 8, 4, 2, 2, 4];

fn c15_limits(tier: Tier, rng: &mut Rng) -> GenLimits {
    GenLimits {
        continuous_only: false,
        max_int_points: match tier {
            Tier::Quick => *rng.pick(&[16u64, 64, 256, 1024]),
            Tier::Thorough => *rng.pick(&[16u64, 64, 256, 1024, 4096]),
        },
        max_cont: 3,
        max_rows: 6,
        allow_satisfy: true,
        integer_data: false,
    }
}

fn ks_to_enumerate(n: u64) -> Vec<u64> {
    // every k when the run is short; otherwise the first and last 20 and 400 stratified
    let top = n + 1;
    if top <= 440 {
        return (1..=top).collect();
    }
    let mut ks: Vec<u64> = (1..=20).chain(top - 19..=top).collect();
    for i in 0..400u64 {
        ks.push(21 + i * (top - 40) / 400);
    }
    ks.sort();
    ks.dedup();
    ks
}

fn phase_label(m: &GenModel, truth: Verdict, direct: &solvers::DirectRun, res: &RunResult) -> &'static str {
    let interrupted = res.clock.first_expired_read.is_some();
    if !interrupted {
        return "limit-never-fired";
    }
    match direct.status {
        DirectStatus::Interrupted => {
            if m.is_continuous() {
                "lp-only-model-interrupted"
            } else if direct.lp_iterations == 0 && direct.nodes == 0 {
                "expired-before-root-lp-work"
            } else if direct.nodes == 0 {
                "expired-at-root-no-incumbent"
            } else {
                "expired-mid-search-no-incumbent"
            }
        }
        DirectStatus::Feasible => {
            let inc_optimal = match (&res.outcome, truth) {
                (Outcome::Sol(s), Verdict::Optimal(o)) => (s.value - o.to_f64()).abs() <= 1e-6 * o.to_f64().abs().max(1.0),
                _ => false,
            };
            if inc_optimal {
                "expired-incumbent-optimal-but-unproven"
            } else {
                "expired-incumbent-not-optimal"
            }
        }
        DirectStatus::Optimal => "expired-after-proof-complete",
        DirectStatus::Infeasible | DirectStatus::Unbounded => "expired-after-verdict",
        DirectStatus::OtherError => "direct-run-error",
        DirectStatus::NoProgress => "direct-run-no-progress",
        DirectStatus::Panic => "direct-run-panic",
    }
}

pub fn explore_c15(unit_seed: u64, tier: Tier) -> UnitReport {
    let mut rep = UnitReport::default();
    let mut rng = Rng::new(unit_seed);
    let deep = maybe_deep_model(&mut rng);
    let lim = c15_limits(tier, &mut rng);
    let (fam, mut m) = generate::gen_model(&mut rng, &C15_WEIGHTS, &lim);
    let is_deep = deep.is_some();
    let fam_name = if is_deep { "deep-search(subset-sum)" } else { fam.name() };
    if let Some(d) = deep {
        m = d;
    }
    let front = if rng.chance(1, 4) {
        Entry::BuilderMicrolp
    } else {
        Entry::MilpWith
    };
    let gap = pick_gap(&mut rng);
    // A relative gap is most sensitive where the objective is close to zero: with a
    // positive gap, half of the models get a constant offset that moves the optimum next
    // to zero (oracle-guided), from either side.
    if gap.allowed() > 0.0 && m.sense != crate::model::Sense::Satisfy && rng.chance(1, 2) {
        if let Verdict::Optimal(opt) = truth_of(&m) {
            let shift = *rng.pick(&[-3.0, -2.0, -1.0, -0.5, 0.5, 1.0, 2.0, 3.0]);
            m.offset = m.offset - opt.to_f64().round() + shift;
            rep.count("probe:offset-moves-optimum-next-to-zero");
        }
    }
    let truth = truth_of(&m);
    let mh = model_hash(&m);
    let budget = read_budget(&m);
    rep.count(&format!("family:{fam_name}"));
    rep.count(&format!("front-door:{}", front.name()));
    if !m.decor.is_empty() {
        rep.count("probe:builder-model-with-linearizer-auxiliaries");
    }
    if m.vars.iter().any(|v| v.name.starts_with('$')) {
        rep.count("probe:variables-named-like-linearizer-auxiliaries");
    }
    rep.count(&format!("gap:{:?}", gap));
    rep.count(&format!("truth:{}", truth.tag()));
    rep.mix(&format!("{mh:x}"));

    let mut run_one = |rep: &mut UnitReport, cfg: RunCfg, label: bool| -> RunResult {
        let case = SolverCase {
            prop: "C15".into(),
            model: m.clone(),
            runs: vec![cfg],
        };
        let mut out = run_solver_case(&case);
        let res = out.results.pop().unwrap();
        rep.evaluations += 1;
        rep.sim_nanos += res.clock.sim_elapsed_nanos;
        rep.count(&format!("fault:{}", cfg.sched.kind()));
        if cfg.limit == (LimitSpec::Dur { secs: 0, nanos: 0 }) {
            rep.count("fault:limit0");
        }
        let fired = res.clock.first_expired_read.is_some();
        if fired {
            rep.count("fault-fired:limit-expired");
            rep.nontrivial.push(fnv(
                format!("{mh:x}|{:?}|{:?}|{}", cfg.gap, res.clock.first_expired_read, res.outcome.tag()).as_bytes(),
            ));
        }
        rep.states.push(fnv(format!("{mh:x}|{}", res.outcome.fingerprint()).as_bytes()));
        rep.count(&format!("outcome:{}", res.outcome.tag()));
        if label && cfg.gap.is_valid() {
            let direct = solvers::run_microlp_direct(&m, &cfg);
            if cfg.entry == Entry::MilpWith && direct.reads != res.clock.reads {
                rep.count("probe:direct-run-diverged");
            } else {
                rep.count(&format!("probe:{}", phase_label(&m, truth, &direct, &res)));
            }
        }
        rep.mix(&format!("{:?}|{}|{}", cfg, res.outcome.fingerprint(), res.clock.log_hash));
        for v in out.violations {
            if rep.failures.len() < 4 {
                rep.failures.push((Case::Solver(case.clone()), v));
            } else {
                rep.count("failures-not-kept");
            }
        }
        res
    };

    // 1. the never-expiring run: finite limit, clock frozen (`stall`)
    let free_cfg = RunCfg {
        entry: front,
        gap,
        limit: LimitSpec::HUGE,
        sched: Sched::Frozen,
        budget,
    };
    let free = run_one(&mut rep, free_cfg, false);
    let n_reads = free.clock.reads;
    let no_progress = matches!(free.outcome, Outcome::NoProgress { .. });
    if no_progress {
        rep.count("probe:relaxation-does-not-terminate(C05)");
    } else {
        rep.count(&format!(
            "reads-uninterrupted:<= {}",
            n_reads.next_power_of_two()
        ));
        rep.count(&format!(
            "reads-per-int-point(x100):<= {}",
            (n_reads * 100 / m.int_points().max(1)).next_power_of_two()
        ));
    }
    if gap.allowed() > 0.0 {
        if let (Outcome::Sol(s), Verdict::Optimal(o)) = (&free.outcome, truth) {
            if s.label == Label::Optimal && (s.value - o.to_f64()).abs() > 1e-9 * o.to_f64().abs().max(1.0) {
                rep.count("probe:gap-stop-taken-value-differs-from-optimum");
                rep.nontrivial.push(fnv(format!("{mh:x}|gapstop|{:?}", gap).as_bytes()));
            } else {
                rep.count("probe:gap-run-value-equals-optimum");
            }
        }
    }

    // 1b. the same front door without any options (`auto_solver` / the builder's `Auto`):
    // "no gap requested" is a setting too, and an Optimal label must then mean the optimum.
    // Only when the never-expiring run above terminated (same model, same pivoting).
    if !no_progress && !is_deep && !matches!(free.outcome, Outcome::Panic { .. }) {
        let auto = if front.is_builder() { Entry::BuilderAuto } else { Entry::Auto };
        if auto.accepts(&m) {
            run_one(&mut rep, RunCfg::plain(auto), false);
            rep.count("no-options-twin(Auto)");
        }
    }

    // 2. every interruption instant
    // a run that never terminates spins inside one loop: only the first reads differ
    let ks: Vec<u64> = if no_progress {
        (1..=24).collect()
    } else if is_deep {
        // a run interrupted at read k costs k reads of search: 24 instants, denser early
        let mut ks: Vec<u64> = (1..=6).collect();
        for i in 1..=8u64 {
            ks.push((n_reads * i * i / 64).max(7));
        }
        ks.push(n_reads + 1);
        ks.sort();
        ks.dedup();
        ks
    } else {
        ks_to_enumerate(n_reads.min(budget))
    };
    for k in &ks {
        let limit = *rng.pick(&LIMIT_PALETTE);
        let cfg = RunCfg {
            entry: front,
            gap,
            limit,
            sched: Sched::ExpireAt { k: *k },
            budget: budget + 64,
        };
        run_one(&mut rep, cfg, !is_deep);
    }
    rep.add("expire-instants-enumerated", ks.len() as u64);

    // 3. other clock behaviours, cross-checked against the expire@k abstraction
    let mut others: Vec<RunCfg> = Vec::new();
    others.push(RunCfg {
        entry: front,
        gap,
        limit: LimitSpec::Dur { secs: 0, nanos: 0 },
        sched: Sched::Frozen,
        budget: budget + 64,
    });
    for _ in 0..2 {
        let mix = rng.below(4) as u8;
        let limit = match mix {
            0 => LimitSpec::Dur {
                secs: 0,
                nanos: rng.range(1, 5_000) as u32,
            },
            1 => LimitSpec::Dur {
                secs: 0,
                nanos: rng.range(1_000, 50_000_000) as u32,
            },
            _ => LimitSpec::Dur {
                secs: rng.range(0, 40) as u64,
                nanos: rng.range(0, 999_999_999) as u32,
            },
        };
        others.push(RunCfg {
            entry: front,
            gap,
            limit,
            sched: Sched::Ticks {
                seed: rng.next_u64(),
                mix,
            },
            budget: budget + 64,
        });
    }
    others.push(RunCfg {
        entry: front,
        gap,
        limit: LimitSpec::Dur { secs: 5, nanos: 0 },
        sched: Sched::JumpAt {
            k: rng.range(1, n_reads.max(1) as i64 + 1) as u64,
            nanos: if rng.chance(1, 2) {
                6_000_000_000
            } else {
                4_000_000_000
            },
        },
        budget: budget + 64,
    });
    // the longest limit there is: can never fire, must not matter
    others.push(RunCfg {
        entry: front,
        gap,
        limit: LimitSpec::MAX,
        sched: Sched::Frozen,
        budget,
    });
    for cfg in others {
        if (no_progress || is_deep) && cfg.limit != (LimitSpec::Dur { secs: 0, nanos: 0 }) {
            continue;
        }
        if cfg.limit == LimitSpec::MAX {
            rep.count("fault:limit-max(Duration::MAX)");
        }
        let res = run_one(&mut rep, cfg, !is_deep);
        // abstraction check: the outcome depends only on the first read that saw the
        // deadline passed
        let reference = match res.clock.first_expired_read {
            None => RunCfg {
                limit: LimitSpec::HUGE,
                sched: Sched::Frozen,
                ..cfg
            },
            Some(kstar) => RunCfg {
                limit: LimitSpec::Dur { secs: 1, nanos: 0 },
                sched: Sched::ExpireAt { k: kstar },
                ..cfg
            },
        };
        let ref_res = solvers::run(&m, &reference);
        rep.evaluations += 1;
        rep.count("abstraction-cross-checks");
        if ref_res.outcome.fingerprint() != res.outcome.fingerprint() {
            rep.harness_errors.push(format!(
                "clock abstraction broken: {:?} gave {} but its first-expired-read reference {:?} gave {} (model {})",
                cfg,
                res.outcome.fingerprint(),
                reference,
                ref_res.outcome.fingerprint(),
                m
            ));
        }
    }

    // 4. invalid option values, with and without a limit that fires
    for _ in 0..2 {
        let g = *rng.pick(&INVALID_GAPS);
        let k = rng.range(1, n_reads.max(1) as i64 + 1) as u64;
        for sched in [Sched::Frozen, Sched::ExpireAt { k }] {
            let cfg = RunCfg {
                entry: front,
                gap: g,
                // always a finite limit: if the option were (wrongly) accepted the solve
                // must still poll the simulated clock, so that the read budget bounds it
                limit: *rng.pick(&LIMIT_PALETTE),
                sched,
                budget: budget + 64,
            };
            run_one(&mut rep, cfg, false);
            rep.count("fault:badopt");
        }
    }
    drop(run_one);
    rep.sample = Some(json!({
        "model": m.to_string(),
        "family": fam_name,
        "front_door": front.name(),
        "gap": format!("{:?}", gap),
        "exact_truth": match truth { Verdict::Optimal(q) => format!("optimum {q}"), v => v.tag().to_string() },
        "clock_reads_uninterrupted": n_reads,
        "interruption_instants_enumerated": ks.len(),
    }));
    rep
}

fn c0405_limits(tier: Tier, rng: &mut Rng) -> GenLimits {
    GenLimits {
        continuous_only: false,
        max_int_points: match tier {
            Tier::Quick => *rng.pick(&[8u64, 32, 128]),
            Tier::Thorough => *rng.pick(&[8u64, 32, 128, 1024]),
        },
        max_cont: 3,
        max_rows: 5,
        allow_satisfy: true,
        integer_data: false,
    }
}

/// The set of runs one model is put through in the solver-agreement world.
pub fn c0405_runs(m: &GenModel, rng: &mut Rng, rep: &mut UnitReport) -> Vec<RunCfg> {
    let budget = read_budget(m);
    // liveness probe: the limit-taking entry point under a clock that never advances
    let probe_cfg = RunCfg {
        entry: Entry::MilpWith,
        gap: GapSpec::Unset,
        limit: LimitSpec::HUGE,
        sched: Sched::Frozen,
        budget,
    };
    let probe = solvers::run(m, &probe_cfg);
    rep.evaluations += 1;
    let hangs = matches!(probe.outcome, Outcome::NoProgress { .. });
    let n_reads = probe.clock.reads.max(1);
    // the builder front door hands microlp the *linearized* model (bounds tightened by
    // propagation), which can pivot differently: it gets its own liveness probe
    let builder_probe_cfg = RunCfg {
        entry: Entry::BuilderMicrolp,
        ..probe_cfg
    };
    let builder_probe = solvers::run(m, &builder_probe_cfg);
    rep.evaluations += 1;
    let builder_hangs = matches!(builder_probe.outcome, Outcome::NoProgress { .. });
    let mut runs = vec![probe_cfg, builder_probe_cfg];
    if hangs {
        rep.count("probe:no-progress-model(no-limit entry points not called)");
    }
    if builder_hangs {
        rep.count("probe:no-progress-through-builder(builder Auto not called)");
    }
    for e in ALL_ENTRIES {
        if !e.accepts(m) || e.takes_options() {
            continue;
        }
        if e.microlp_backed() && (if e.is_builder() { builder_hangs } else { hangs }) {
            continue;
        }
        runs.push(RunCfg::plain(e));
        if e.microlp_backed() || rng.chance(1, 2) {
            // the same call under a moving clock: must be bit-identical (the tableau simplex
            // and Clarabel see the simulated clock through std::time, §2.1)
            let sched = if rng.chance(1, 2) {
                Sched::Ticks {
                    seed: rng.next_u64(),
                    mix: rng.below(4) as u8,
                }
            } else {
                Sched::JumpAt {
                    k: rng.range(1, 3) as u64,
                    nanos: 1u64 << rng.range(10, 62),
                }
            };
            runs.push(RunCfg {
                sched,
                ..RunCfg::plain(e)
            });
        }
    }
    // clock faults on the limit-taking entry points
    for e in [Entry::MilpWith, Entry::BuilderMicrolp] {
        if !e.accepts(m) {
            continue;
        }
        for _ in 0..3 {
            runs.push(RunCfg {
                entry: e,
                gap: GapSpec::Unset,
                limit: *rng.pick(&LIMIT_PALETTE),
                sched: Sched::ExpireAt {
                    k: rng.range(1, n_reads as i64 + 1) as u64,
                },
                budget: budget + 64,
            });
        }
        runs.push(RunCfg {
            entry: e,
            gap: GapSpec::Unset,
            limit: LimitSpec::Dur { secs: 0, nanos: 0 },
            sched: Sched::Frozen,
            budget: budget + 64,
        });
        if rng.chance(1, 3) {
            runs.push(RunCfg {
                entry: e,
                gap: *rng.pick(&[GapSpec::Val(0.05), GapSpec::Val(0.5), GapSpec::Val(1e-3)]),
                limit: LimitSpec::HUGE,
                sched: Sched::Frozen,
                budget,
            });
        }
    }
    runs
}

pub fn explore_c0405(prop: &str, unit_seed: u64, tier: Tier) -> UnitReport {
    let mut rep = UnitReport::default();
    let mut rng = Rng::new(unit_seed);
    let deep = maybe_deep_model(&mut rng);
    let lim = c0405_limits(tier, &mut rng);
    let (fam, mut m) = generate::gen_model(&mut rng, &C0405_WEIGHTS, &lim);
    let fam_name = if deep.is_some() { "deep-search(subset-sum)" } else { fam.name() };
    if let Some(d) = deep {
        m = d;
    }
    let truth = truth_of(&m);
    let mh = model_hash(&m);
    rep.count(&format!("family:{fam_name}"));
    rep.count(&format!("truth:{}", truth.tag()));
    if !m.decor.is_empty() {
        rep.count("probe:builder-model-with-linearizer-auxiliaries");
    }
    if m.vars.iter().any(|v| v.name.starts_with('$')) {
        rep.count("probe:variables-named-like-linearizer-auxiliaries");
    }
    rep.mix(&format!("{mh:x}"));
    let mut runs = c0405_runs(&m, &mut rng, &mut rep);
    // triage aid (never set by the registered commands): look at one back-end only
    if let Ok(focus) = std::env::var("VERIF_FOCUS") {
        runs.retain(|r| {
            r.entry.name().to_lowercase().contains(&focus.to_lowercase())
                || (r.entry == Entry::SlowSimplex && r.sched == Sched::Frozen)
        });
    }
    let case = SolverCase {
        prop: prop.to_string(),
        model: m.clone(),
        runs,
    };
    let out = run_solver_case(&case);
    let mut answered = 0;
    for (cfg, res) in case.runs.iter().zip(&out.results) {
        rep.evaluations += 1;
        rep.sim_nanos += res.clock.sim_elapsed_nanos;
        let faulty = cfg.sched != Sched::Frozen || cfg.limit == (LimitSpec::Dur { secs: 0, nanos: 0 });
        rep.count(&format!(
            "entry:{}:{}",
            cfg.entry.name(),
            if faulty { "clock-fault" } else { "fault-free" }
        ));
        rep.count(&format!("fault:{}", cfg.sched.kind()));
        if res.clock.first_expired_read.is_some() {
            rep.count("fault-fired:limit-expired");
        }
        rep.count(&format!("outcome:{}", res.outcome.tag()));
        if matches!(res.outcome, Outcome::Sol(_)) {
            answered += 1;
        }
        rep.states.push(fnv(format!("{mh:x}|{:?}|{}", cfg.entry, res.outcome.fingerprint()).as_bytes()));
        rep.mix(&format!("{:?}|{}|{}", cfg, res.outcome.fingerprint(), res.clock.log_hash));
    }
    // non-trivial: a model on which at least two entry points returned a solution, or whose
    // exact verdict is infeasible / unbounded (a verdict had to be produced)
    if answered >= 2 || truth != Verdict::Infeasible && !matches!(truth, Verdict::Optimal(_)) || truth == Verdict::Infeasible {
        rep.nontrivial.push(mh);
    }
    for v in out.violations {
        if rep.failures.len() < 6 {
            rep.failures.push((Case::Solver(case.clone()), v));
        } else {
            rep.count("failures-not-kept");
        }
    }
    rep.sample = Some(json!({
        "model": m.to_string(),
        "family": fam_name,
        "exact_truth": match truth { Verdict::Optimal(q) => format!("optimum {q}"), v => v.tag().to_string() },
        "runs": case.runs.iter().zip(&out.results).map(|(c, r)| format!("{} clock={:?} limit={:?} -> {}", c.entry.name(), c.sched, c.limit, r.outcome.tag())).collect::<Vec<_>>(),
    }));
    rep
}

pub fn explore_c14(unit_seed: u64, index: u64, _tier: Tier) -> UnitReport {
    let mut rep = UnitReport::default();
    let mut rng = Rng::new(unit_seed);
    let (kind, case) = tableau_world::gen_case(&mut rng, index);
    rep.count(&format!("input:{kind}"));
    let run = tableau_world::run_tableau_case(&case);
    rep.evaluations += 1;
    let p = &run.probes;
    for (name, n) in [
        ("pivots-checked-exactly", p.pivots_checked),
        ("probe:degenerate-pivot", p.degenerate_pivot),
        ("probe:ratio-tie", p.ratio_tie),
        ("probe:tie-broken-by-preference", p.tie_broken_by_preference),
        ("probe:bland-switch-engaged", p.bland_engaged),
        ("probe:unbounded-detected", p.unbounded_detected),
        ("probe:finished", p.finished),
        ("probe:pipe-stage-driver(StepByStepSimplexPipe)", p.pipe_driver),
        ("fault-fired:budget@k(IterationLimitReached)", p.interrupted),
        ("fault-fired:resume-after-interruption", p.resumed),
        ("probe:resume-changed-pivot-sequence", p.resume_changed_sequence),
        ("probe:two-phase-start", p.two_phase_start),
        ("probe:infeasible-start", p.infeasible_start),
        ("fault-fired:snapshot", p.snapshots),
        ("probe:long-trace", p.long_trace_sampled),
        ("states-checked", run.states),
    ] {
        if n > 0 {
            rep.add(name, n);
        }
    }
    for op in &case.ops {
        let k = match op {
            tableau_world::Op::Step { prefer } if prefer.is_empty() => "op:step",
            tableau_world::Op::Step { .. } => "op:step+prefer(S)",
            tableau_world::Op::Solve { .. } => "op:solve(budget)",
            tableau_world::Op::SolveAvoiding { .. } => "op:solve_avoiding(budget,S)",
            tableau_world::Op::SolveStepByStep { .. } => "op:solve_step_by_step(budget)",
            tableau_world::Op::Snapshot => "op:snapshot",
        };
        rep.count(k);
    }
    if run.probes.long_trace_sampled > 0 {
        rep.count(&format!("probe:long-trace-input:{kind}"));
    }
    match &run.skipped {
        Some(why) => rep.count(&format!("skipped:{why}")),
        None => {
            if run.probes.pivots_checked > 0 {
                rep.nontrivial.push(run.trace_hash);
            }
        }
    }
    rep.states.push(run.trace_hash);
    rep.mix(&format!("{}|{}|{:?}|{}", run.trace_hash, run.states, run.skipped, run.violations.len()));
    for v in run.violations {
        if rep.failures.len() < 4 {
            rep.failures.push((Case::Tableau(case.clone()), v));
        }
    }
    rep.sample = Some(json!({
        "input": kind,
        "source": match &case.source {
            tableau_world::TableauSource::Model(m) => m.to_string(),
            tableau_world::TableauSource::Canonical { c, a, b, basis, .. } => format!("c={c:?} A={a:?} b={b:?} basis={basis:?}"),
            tableau_world::TableauSource::Phase1 { a, b } => format!("phase-1 of A={a:?} b={b:?}"),
        },
        "driver_schedule": format!("{:?}", case.ops),
        "pivots_checked": run.probes.pivots_checked,
    }));
    rep
}

fn bounds_ks(n: usize) -> Vec<usize> {
    let top = n + 1;
    if top <= 320 {
        return (0..=top).collect();
    }
    let mut ks: Vec<usize> = (0..=20).chain(top - 19..=top).collect();
    for i in 0..280usize {
        ks.push(21 + i * (top - 40) / 280);
    }
    ks.sort();
    ks.dedup();
    ks
}

pub fn explore_c07(unit_seed: u64, _tier: Tier) -> UnitReport {
    let mut rep = UnitReport::default();
    let mut rng = Rng::new(unit_seed);
    let (label, m) = bounds_world::gen_src_model(&mut rng);
    rep.count(&format!("shape:{label}"));
    let mh = fnv(serde_json::to_string(&m).unwrap().as_bytes());
    rep.mix(&format!("{mh:x}"));
    let Some(n) = bounds_world::steps_to_quiescence(&m) else {
        let case = BoundsCase { model: m, k: None };
        let run = bounds_world::run_bounds_case(&case);
        for v in run.violations {
            rep.failures.push((Case::Bounds(case.clone()), v));
        }
        rep.evaluations += 1;
        return rep;
    };
    if n >= 10_000 {
        rep.count("probe:shipped-budget-reached");
    }
    let ks: Vec<Option<usize>> = bounds_ks(n.min(10_000))
        .into_iter()
        .map(Some)
        .chain(std::iter::once(None))
        .collect();
    let mut infeasible = false;
    let mut any_tight = false;
    for k in &ks {
        let case = BoundsCase {
            model: m.clone(),
            k: *k,
        };
        let run = bounds_world::run_bounds_case(&case);
        rep.evaluations += 1;
        rep.count("fault:steps@k");
        let p = &run.probes;
        if p.budget_hit {
            rep.count("fault-fired:steps@k(budget hit before quiescence)");
            rep.nontrivial.push(fnv(format!("{mh:x}|{:?}|{}", k, run.state_hash).as_bytes()));
        }
        if p.infeasible_detected {
            rep.count("probe:contradiction-freeze");
        }
        infeasible = p.source_infeasible;
        if p.tightened_vars > 0 {
            any_tight = true;
        }
        rep.add("probe:integer-rounded-range", p.integer_rounded);
        rep.add("probe:empty-integer-interval-kept", p.empty_integer_interval_kept);
        rep.add("probe:infinite-range-published", p.infinite_range_published);
        rep.add("probe:piecewise-row-with-tightening", p.piecewise_reverse_applied);
        rep.add("expression-ranges-checked", p.exprs_checked);
        rep.add("expression-points-evaluated", p.expr_points_checked);
        if p.oracle_unavailable {
            rep.count("probe:exact-range-oracle-unavailable(overflow)");
        }
        if p.published_box_checked {
            rep.count("published-box-checks");
        }
        if p.extension_checked {
            rep.count("witness-extension-checks(compiled model admits the planted point)");
        }
        if p.linearize_ok {
            rep.count("linearize:ok");
        }
        if p.linearize_err {
            rep.count("linearize:error(no published model)");
        }
        rep.states.push(fnv(format!("{mh:x}|{}", run.state_hash).as_bytes()));
        rep.mix(&format!("{:?}|{}|{}|{}", k, run.state_hash, run.steps_used, run.violations.len()));
        for v in run.violations {
            if rep.failures.len() < 4 {
                rep.failures.push((Case::Bounds(case.clone()), v));
            } else {
                rep.count("failures-not-kept");
            }
        }
    }
    if infeasible {
        rep.count("truth:source-infeasible");
    } else {
        rep.count("truth:source-feasible");
    }
    if any_tight {
        rep.count("probe:model-with-tightening");
    }
    rep.sample = Some(json!({
        "model": m.to_string(),
        "shape": label,
        "steps_to_quiescence": n,
        "budgets_enumerated": ks.len(),
        "source_feasible": !infeasible,
    }));
    rep
}

/// JSON description of what a unit would explore (no system-under-test code is run).
pub fn describe_unit(prop: &str, unit_seed: u64, index: u64) -> String {
    let mut rng = Rng::new(unit_seed);
    match prop {
        "C15" => {
            let lim = c15_limits(Tier::Quick, &mut rng);
            let (_, m) = generate::gen_model(&mut rng, &C15_WEIGHTS, &lim);
            serde_json::to_string(&m).unwrap()
        }
        "C04" | "C05" => {
            let lim = c0405_limits(Tier::Quick, &mut rng);
            let (_, m) = generate::gen_model(&mut rng, &C0405_WEIGHTS, &lim);
            serde_json::to_string(&m).unwrap()
        }
        "C14" => serde_json::to_string(&tableau_world::gen_case(&mut rng, index).1).unwrap(),
        "C07" => serde_json::to_string(&bounds_world::gen_src_model(&mut rng).1).unwrap(),
        _ => String::new(),
    }
}
