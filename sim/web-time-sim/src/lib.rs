//! Simulated drop-in replacement for the `web-time` crate (v1.1.0 API surface used by
//! microlp): `Instant` reads a *thread-local simulated clock* that the rooc-sim harness
//! owns. One installed `Schedule` decides the value of every clock read; every read is
//! counted, hashed into an event log, and charged against a read budget (which doubles as
//! a cooperative step counter for loops that poll the clock).
//!
//! With nothing installed the clock is frozen at the epoch and unbudgeted, so code that is
//! not under simulation still works.

use std::cell::RefCell;
use std::cmp::Ordering;
use std::ops::{Add, AddAssign, Sub, SubAssign};

pub use std::time::{Duration, SystemTime, SystemTimeError, UNIX_EPOCH};

/// Simulated instant: time since an arbitrary simulated epoch.
#[derive(Clone, Copy, PartialEq, Eq, Hash, Debug)]
pub struct Instant(Duration);

pub mod sim {
    use super::*;

    /// Simulated epoch offset so that subtractions never underflow.
    pub const T0: Duration = Duration::from_secs(1_000_000);
    /// Forward jump used by `ExpireAt`: larger than any limit the harness generates (2^40 s).
    pub const JUMP: Duration = Duration::from_secs(1u64 << 42);

    /// How the simulated clock answers successive reads (read indices start at 1).
    #[derive(Clone, Debug, PartialEq)]
    pub enum Schedule {
        /// The clock never advances.
        Frozen,
        /// Frozen until read `k`, which (and every later read) returns `T0 + JUMP`.
        ExpireAt { k: u64 },
        /// Frozen, with a single forward jump of `nanos` at read `k`.
        JumpAt { k: u64, nanos: u64 },
        /// Every read advances the clock by a pseudo-random amount that is a pure function
        /// of (`seed`, read index); `mix` selects the magnitude mixture.
        Ticks { seed: u64, mix: u8 },
    }

    /// Payload of the unwinding panic raised when the read budget is exhausted.
    #[derive(Debug, Clone, Copy)]
    pub struct StepBudgetExceeded {
        pub reads: u64,
    }

    /// What one simulated run did with the clock.
    #[derive(Clone, Debug, Default, PartialEq)]
    pub struct Report {
        /// Number of clock reads (`web_time::Instant::now()` and, through the interposed
        /// `clock_gettime`, `std::time::Instant::now()`).
        pub reads: u64,
        /// How many of them came through `std::time`.
        pub std_reads: u64,
        /// Read index current when a comparison `a >= b` between instants first held
        /// (microlp only ever compares `now() >= deadline`).
        pub first_expired_read: Option<u64>,
        /// Number of instant comparisons performed.
        pub comparisons: u64,
        /// Number of `Instant + Duration` (deadline constructions).
        pub additions: u64,
        /// Simulated time covered: last read minus first read, in nanoseconds.
        pub sim_elapsed_nanos: u128,
        /// Order-sensitive hash of every (read index, time) pair.
        pub log_hash: u64,
        pub budget_exceeded: bool,
    }

    pub(super) struct State {
        pub schedule: Schedule,
        pub budget: u64,
        pub now: Duration,
        pub first: Option<Duration>,
        pub report: Report,
    }

    thread_local! {
        pub(super) static STATE: RefCell<Option<State>> = const { RefCell::new(None) };
    }

    /// Installs a schedule for this thread; `budget` is the maximum number of reads
    /// (0 = unlimited). Resets the read counter and log.
    pub fn install(schedule: Schedule, budget: u64) {
        STATE.with(|s| {
            *s.borrow_mut() = Some(State {
                schedule,
                budget,
                now: T0,
                first: None,
                report: Report {
                    log_hash: 0xcbf2_9ce4_8422_2325,
                    ..Report::default()
                },
            })
        });
    }

    /// Removes the schedule and returns what happened since `install`.
    pub fn uninstall() -> Report {
        STATE.with(|s| {
            s.borrow_mut()
                .take()
                .map(|st| st.report)
                .unwrap_or_default()
        })
    }

    fn splitmix(mut x: u64) -> u64 {
        x = x.wrapping_add(0x9e37_79b9_7f4a_7c15);
        let mut z = x;
        z = (z ^ (z >> 30)).wrapping_mul(0xbf58_476d_1ce4_e5b9);
        z = (z ^ (z >> 27)).wrapping_mul(0x94d0_49bb_1331_11eb);
        z ^ (z >> 31)
    }

    /// Advance drawn for read `i` of a `Ticks` schedule, in nanoseconds.
    pub fn tick_nanos(seed: u64, mix: u8, i: u64) -> u64 {
        let r = splitmix(seed ^ i.wrapping_mul(0xa076_1d64_78bd_642f));
        let mag = r % 100;
        let fine = (r >> 8) % 1000 + 1;
        match mix % 4 {
            // mostly nothing, sometimes ns..µs
            0 => match mag {
                0..=59 => 0,
                60..=89 => fine,
                _ => fine * 1_000,
            },
            // µs..ms steps
            1 => match mag {
                0..=19 => 0,
                20..=69 => fine * 1_000,
                _ => fine * 1_000_000,
            },
            // ms..s steps with rare hours
            2 => match mag {
                0..=9 => 0,
                10..=59 => fine * 1_000_000,
                60..=97 => fine * 1_000_000_000,
                _ => 3_600_000_000_000 * (fine % 5 + 1),
            },
            // wild: everything from zero to hours
            _ => match mag {
                0..=29 => 0,
                30..=49 => fine,
                50..=69 => fine * 1_000,
                70..=84 => fine * 1_000_000,
                85..=96 => fine * 1_000_000_000,
                _ => 3_600_000_000_000 * (fine % 24 + 1),
            },
        }
    }

    pub(super) fn read() -> Duration {
        let outcome = STATE.with(|s| {
            let mut guard = s.borrow_mut();
            let Some(st) = guard.as_mut() else {
                return Ok(T0);
            };
            st.report.reads += 1;
            let i = st.report.reads;
            if st.budget != 0 && i > st.budget {
                st.report.budget_exceeded = true;
                return Err(StepBudgetExceeded { reads: i });
            }
            let next = match &st.schedule {
                Schedule::Frozen => st.now,
                Schedule::ExpireAt { k } => {
                    if i >= *k {
                        T0 + JUMP
                    } else {
                        st.now
                    }
                }
                Schedule::JumpAt { k, nanos } => {
                    if i == *k {
                        st.now + Duration::from_nanos(*nanos)
                    } else {
                        st.now
                    }
                }
                Schedule::Ticks { seed, mix } => {
                    st.now + Duration::from_nanos(tick_nanos(*seed, *mix, i))
                }
            };
            assert!(next >= st.now, "simulated Instant must be monotone");
            st.now = next;
            if st.first.is_none() {
                st.first = Some(next);
            }
            st.report.sim_elapsed_nanos = (next - st.first.unwrap()).as_nanos();
            let mut h = st.report.log_hash;
            for word in [i, next.as_secs(), next.subsec_nanos() as u64] {
                h ^= word;
                h = h.wrapping_mul(0x0000_0100_0000_01b3);
            }
            st.report.log_hash = h;
            Ok(next)
        });
        match outcome {
            Ok(t) => t,
            Err(payload) => std::panic::panic_any(payload),
        }
    }

    /// A read coming through `std::time::Instant` (see `clock_gettime` below). Never
    /// unwinds: it crosses a C ABI. `None` = no simulation on this thread.
    pub(super) fn read_for_std() -> Option<Duration> {
        STATE
            .try_with(|s| {
                let mut guard = s.try_borrow_mut().ok()?;
                let st = guard.as_mut()?;
                st.report.reads += 1;
                st.report.std_reads += 1;
                let i = st.report.reads;
                let next = match &st.schedule {
                    Schedule::Frozen => st.now,
                    Schedule::ExpireAt { k } => {
                        if i >= *k {
                            T0 + JUMP
                        } else {
                            st.now
                        }
                    }
                    Schedule::JumpAt { k, nanos } => {
                        if i == *k {
                            st.now + Duration::from_nanos(*nanos)
                        } else {
                            st.now
                        }
                    }
                    Schedule::Ticks { seed, mix } => {
                        st.now + Duration::from_nanos(tick_nanos(*seed, *mix, i))
                    }
                };
                if next > st.now {
                    st.now = next;
                }
                if st.first.is_none() {
                    st.first = Some(st.now);
                }
                st.report.sim_elapsed_nanos = (st.now - st.first.unwrap()).as_nanos();
                Some(st.now)
            })
            .ok()
            .flatten()
    }

    pub(super) fn note_comparison(holds_ge: bool) {
        STATE.with(|s| {
            if let Some(st) = s.borrow_mut().as_mut() {
                st.report.comparisons += 1;
                if holds_ge && st.report.first_expired_read.is_none() {
                    st.report.first_expired_read = Some(st.report.reads);
                }
            }
        });
    }

    pub(super) fn note_addition() {
        STATE.with(|s| {
            if let Some(st) = s.borrow_mut().as_mut() {
                st.report.additions += 1;
            }
        });
    }
}

impl Instant {
    pub fn now() -> Instant {
        Instant(sim::read())
    }

    pub fn duration_since(&self, earlier: Instant) -> Duration {
        self.checked_duration_since(earlier).unwrap_or_default()
    }

    pub fn checked_duration_since(&self, earlier: Instant) -> Option<Duration> {
        self.0.checked_sub(earlier.0)
    }

    pub fn saturating_duration_since(&self, earlier: Instant) -> Duration {
        self.checked_duration_since(earlier).unwrap_or_default()
    }

    pub fn elapsed(&self) -> Duration {
        Instant::now() - *self
    }

    pub fn checked_add(&self, duration: Duration) -> Option<Instant> {
        self.0.checked_add(duration).map(Instant)
    }

    pub fn checked_sub(&self, duration: Duration) -> Option<Instant> {
        self.0.checked_sub(duration).map(Instant)
    }
}

impl PartialOrd for Instant {
    fn partial_cmp(&self, other: &Instant) -> Option<Ordering> {
        Some(self.cmp(other))
    }
}

impl Ord for Instant {
    fn cmp(&self, other: &Instant) -> Ordering {
        let ord = self.0.cmp(&other.0);
        sim::note_comparison(ord != Ordering::Less);
        ord
    }
}

impl Add<Duration> for Instant {
    type Output = Instant;
    /// Panics on overflow, like `std::time::Instant`.
    fn add(self, other: Duration) -> Instant {
        sim::note_addition();
        self.checked_add(other)
            .expect("overflow when adding duration to instant")
    }
}

impl AddAssign<Duration> for Instant {
    fn add_assign(&mut self, other: Duration) {
        *self = *self + other;
    }
}

impl Sub<Duration> for Instant {
    type Output = Instant;
    fn sub(self, other: Duration) -> Instant {
        self.checked_sub(other)
            .expect("overflow when subtracting duration from instant")
    }
}

impl SubAssign<Duration> for Instant {
    fn sub_assign(&mut self, other: Duration) {
        *self = *self - other;
    }
}

impl Sub<Instant> for Instant {
    type Output = Duration;
    fn sub(self, other: Instant) -> Duration {
        self.duration_since(other)
    }
}

// ---------------------------------------------------------------------------------------
// The same simulated clock for `std::time::Instant`.
//
// `std::time::Instant::now()` is `clock_gettime(CLOCK_MONOTONIC)`. The executable defines
// that symbol itself, so every call from Rust code linked into it (std included) lands
// here first. On a thread with a schedule installed the monotonic clock IS the simulated
// clock (each call is one more read of the same schedule); anywhere else the call goes
// straight to the kernel. This puts Clarabel's timers, and any clock a change to rooc might
// start reading through std, behind the same seam as microlp's.

#[repr(C)]
pub struct Timespec {
    tv_sec: i64,
    tv_nsec: i64,
}

extern "C" {
    fn syscall(num: std::os::raw::c_long, ...) -> std::os::raw::c_long;
}

#[cfg(all(target_os = "linux", target_arch = "x86_64"))]
const SYS_CLOCK_GETTIME: std::os::raw::c_long = 228;
const CLOCK_MONOTONIC: i32 = 1;
const CLOCK_MONOTONIC_RAW: i32 = 4;
const CLOCK_BOOTTIME: i32 = 7;

/// # Safety
/// Same contract as libc's `clock_gettime`: `ts` must be valid for writes.
#[cfg(all(target_os = "linux", target_arch = "x86_64"))]
#[no_mangle]
pub unsafe extern "C" fn clock_gettime(clk: i32, ts: *mut Timespec) -> std::os::raw::c_int {
    if matches!(clk, CLOCK_MONOTONIC | CLOCK_MONOTONIC_RAW | CLOCK_BOOTTIME) && !ts.is_null() {
        if let Some(t) = sim::read_for_std() {
            (*ts).tv_sec = t.as_secs() as i64;
            (*ts).tv_nsec = t.subsec_nanos() as i64;
            return 0;
        }
    }
    syscall(SYS_CLOCK_GETTIME, clk as std::os::raw::c_long, ts) as std::os::raw::c_int
}
