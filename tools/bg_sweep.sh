#!/bin/bash
# Background multi-seed sweep for `vp run --with-repo`: builds the simulator in the run's
# own snapshot against the snapshot of /repo, writes nothing under /verif.
# usage: tools/bg_sweep.sh "<seeds>" "<props>"
set -u
seeds="$1"; props="$2"
here="$(pwd)"
sed -i "s#/repo/packages/rooc#${VP_RUN_REPO}/packages/rooc#" sim/Cargo.toml
( cd sim && CARGO_NET_OFFLINE=true cargo build --release --offline 2>&1 | tail -2 )
export VERIF_HOME="$here"
for sd in $seeds; do for p in $props; do
  out=$(VERIF_SEED=$sd timeout 1200 ./sim/target/release/rooc-sim check $p quick 2>&1); code=$?
  echo "seed=$sd $p exit=$code known=$(echo "$out" | grep -c KNOWN-FINDING)"
  if [ $code != 0 ]; then echo "$out" | grep -E "VIOLATION|class=|HARNESS" | cut -c1-400; fi
done; done
echo SWEEP-DONE
