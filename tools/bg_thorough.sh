#!/bin/bash
# Background thorough-tier run for `vp run --with-repo` (own snapshot, own evidence dir).
# usage: tools/bg_thorough.sh "<props>" [seed]
set -u
props="$1"; seed="${2:-20260925}"
here="$(pwd)"
sed -i "s#/repo/packages/rooc#${VP_RUN_REPO}/packages/rooc#" sim/Cargo.toml
( cd sim && CARGO_NET_OFFLINE=true cargo build --release --offline 2>&1 | tail -1 )
export VERIF_HOME="$here"
for p in $props; do
  out=$(VERIF_SEED=$seed timeout 7000 ./sim/target/release/rooc-sim check $p thorough 2>&1); code=$?
  echo "thorough seed=$seed $p exit=$code"
  echo "$out" | grep -E "VIOLATION|class=|HARNESS|^done|KNOWN" | cut -c1-400
done
echo THOROUGH-DONE
