#!/bin/bash
# tools/confirm_seeded.sh <scratch worktree with mutation_out/> <seeded id>
# Confirms an independently produced change in its own scratch worktree:
#   with the change: it compiles, the existing suite passes, the demo fails;
#   without the change: the demo passes.
# On success stores patch.diff, the demo and confirm.log under /verif/seeded/<id>/.
set -u
wt="$1"; id="$2"
out="$wt/mutation_out"; crate="$wt/packages/rooc"
dest="/verif/seeded/$id"; mkdir -p "$dest"
log="$dest/confirm.log"; : > "$log"
demo=$(ls "$out"/*.rs | head -1)
name=$(basename "$demo" .rs)
cd "$wt" || exit 2
git checkout -q -- . 2>/dev/null
rm -f "$crate/tests/$name.rs"
git apply "$out/patch.diff" || { echo "patch does not apply" | tee -a "$log"; exit 1; }
echo "[with change] existing suite" | tee -a "$log"
( cd "$crate" && cargo test --workspace --no-fail-fast --offline 2>&1 | grep -E "^test result|FAILED|^error" | sort | uniq -c ) | tee -a "$log"
suite_fail=$( cd "$crate" && cargo test --workspace --no-fail-fast --offline 2>&1 | grep -cE "FAILED|^error" )
cp "$demo" "$crate/tests/$name.rs"
echo "[with change] demo" | tee -a "$log"
( cd "$crate" && cargo test --offline --test "$name" 2>&1 | grep -E "^test |^test result|^error" ) | tee -a "$log"
with=$( cd "$crate" && cargo test --offline --test "$name" 2>&1 | grep -cE "^test result: ok" )
rm -f "$crate/tests/$name.rs"
git checkout -q -- .
cp "$demo" "$crate/tests/$name.rs"
echo "[without change] demo" | tee -a "$log"
( cd "$crate" && cargo test --offline --test "$name" 2>&1 | grep -E "^test |^test result|^error" ) | tee -a "$log"
without=$( cd "$crate" && cargo test --offline --test "$name" 2>&1 | grep -cE "^test result: ok" )
rm -f "$crate/tests/$name.rs"
echo "suite_failures_with_change=$suite_fail demo_ok_with_change=$with demo_ok_without_change=$without" | tee -a "$log"
if [ "$suite_fail" = 0 ] && [ "$with" = 0 ] && [ "$without" = 1 ]; then
  cp "$out/patch.diff" "$dest/patch.diff"; cp "$demo" "$dest/"; cp "$out/notes.md" "$dest/notes.md" 2>/dev/null
  echo CONFIRMED | tee -a "$log"
else
  echo NOT-CONFIRMED | tee -a "$log"; exit 1
fi
