#!/bin/bash
# tools/hand_all.sh : run every hand-written mutation under seeded/hand/ (file name prefix
# = property it breaks; std_deadline breaks C04 and C05) against that property's quick check.
cd /verif/seeded/hand || exit 2
for f in *.diff; do
  case "$f" in
    std_deadline.diff) props="C04 C05" ;;
    *) props=$(echo "${f%%_*}" | tr a-z A-Z) ;;
  esac
  out=$(/verif/tools/try_mutation.sh "/verif/seeded/hand/$f" $props 2>&1)
  echo "$f: $(echo "$out" | grep -E "^== " | tr '\n' ' ') $(echo "$out" | grep -m1 -o "class=[a-z:'-]*")"
done
