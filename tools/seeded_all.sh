#!/bin/bash
# tools/seeded_all.sh : re-run every seeded change against the quick check of the property it
# breaks (first property named in meta.json) and print one line per change.
cd /verif/seeded || exit 2
for d in */; do
  id="${d%/}"
  [ -f "$id/meta.json" ] || continue
  prop=$(python3 -c "import json;print(json.load(open('$id/meta.json'))['breaks'].split()[0])")
  /verif/tools/seeded_run.sh "$id" "$prop" >/dev/null 2>&1
  res=$(head -1 "$id/detection.txt")
  cls=$(grep -m1 "class=" "$id/detection.txt" | sed 's/ unit=.*//' | cut -c1-80)
  echo "$id: $res $cls"
done
