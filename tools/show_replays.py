#!/usr/bin/env python3
import json,glob,sys
pat = sys.argv[1] if len(sys.argv)>1 else '/verif/replays/*.json'
for f in sorted(glob.glob(pat)):
    d=json.load(open(f))
    print('==',f.split('/')[-1], '|', d['original_size'])
    print('   ', d['violation']['class'], '::', d['violation']['detail'][:400])
    kind=list(d['case'].keys())[0]
    c=d['case'][kind]
    print('    case:', json.dumps(c)[:1500])
