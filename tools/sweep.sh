#!/bin/bash
# tools/sweep.sh "<seeds>" "<props>" : run the quick checks under several VERIF_SEED values
# on the current tree and summarise anything that is not exit 0.
seeds="${1:-1 2 3}"; props="${2:-C15 C04 C05 C14 C07}"
cd /verif || exit 2
for sd in $seeds; do for p in $props; do
  out=$(VERIF_SEED=$sd timeout 1000 ./check $p "${TIER:-quick}" 2>&1); code=$?
  echo "seed=$sd $p exit=$code $(echo "$out" | grep -c KNOWN-FINDING) known-finding lines"
  if [ $code != 0 ]; then echo "$out" | grep -E "VIOLATION|class=|HARNESS" | cut -c1-330; fi
done; done
