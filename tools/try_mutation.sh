#!/bin/bash
# tools/try_mutation.sh <patch.diff> <prop> [<prop> ...]
# Applies a seeded change to /repo, runs the quick check of each property, prints the
# verdict lines, and restores /repo. Never leaves /repo modified.
set -u
patch="$1"; shift
cd /repo || exit 2
if [ -n "$(git status --porcelain --untracked-files=no)" ]; then echo "refusing: /repo has local changes"; exit 2; fi
if ! git apply --check "$patch" 2>/dev/null; then echo "patch does not apply: $patch"; exit 2; fi
git apply "$patch"
trap 'git -C /repo checkout -- . ; git -C /repo status --porcelain --untracked-files=no' EXIT
mkdir -p /tmp/mutation_replays
for p in "$@"; do
  out=$(cd /verif && VERIF_UNITS="${VERIF_UNITS:-}" ./check "$p" "${TIER:-quick}" 2>&1)
  code=$?
  echo "== $p exit=$code"
  echo "$out" | grep -E "VIOLATION|class=|HARNESS|done property" | head -12
done
